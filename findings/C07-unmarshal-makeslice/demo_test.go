package pbcmpl

import (
	"bytes"
	"encoding/binary"
	"fmt"
	"io"
	"testing"

	"github.com/openacid/errors"
)

func TestDemoHugeBody(t *testing.T) {
	for _, bs := range []uint64{1 << 63, 1<<64 - 1, 1 << 62, 1 << 50, 40, 0} {
		hdr := make([]byte, 32)
		copy(hdr, "1.0.0")
		binary.LittleEndian.PutUint64(hdr[16:], 32)
		binary.LittleEndian.PutUint64(hdr[24:], bs)
		stream := append(hdr, []byte("abcdefghij")...)
		func() {
			defer func() {
				if p := recover(); p != nil {
					fmt.Printf("BodySize=%d: PANIC %v\n", bs, p)
				}
			}()
			h := &header{}
			n, ver, err := Unmarshal(bytes.NewReader(stream), h)
			fmt.Printf("BodySize=%d: n=%d ver=%q cause=%v eofs=%v/%v\n", bs, n, ver, errors.Cause(err), errors.Cause(err) == io.EOF, errors.Cause(err) == io.ErrUnexpectedEOF)
		}()
	}
}
