package bitstr

import (
	"strings"
	"testing"
)

// bitsOfB renders the bits [from, to) of s as a string of '0' and '1'.
func bitsOfB(s string, from, to int32) string {
	var sb strings.Builder
	for pos := from; pos < to; pos++ {
		if (s[pos/8]>>uint(7-pos%8))&1 == 1 {
			sb.WriteByte('1')
		} else {
			sb.WriteByte('0')
		}
	}
	return sb.String()
}

// naiveCmpUptoB is the reference: the first n bits of key (all of key if it
// is shorter), n being the number of bits in the range, compared
// lexicographically with the bits s[8*floor(from/8), to); a proper prefix
// sorts first. Comparing strings of '0'/'1' does exactly that.
func naiveCmpUptoB(key string, s string, from, to int32) int {
	start := (from / 8) * 8
	want := bitsOfB(s, start, to)

	n := int32(len(want))
	kl := int32(len(key) * 8)
	if kl > n {
		kl = n
	}
	have := bitsOfB(key, 0, kl)

	return strings.Compare(have, want)
}

func TestSeededDemoB(t *testing.T) {

	alphabet := []byte{0x00, 0x01, 0x61, 0x62, 0x7f, 0x80, 0xff}

	// all strings of length 0..2 over the alphabet, plus some longer ones
	// around the 8 byte switch in cmpBytes.
	strs := []string{""}
	for _, x := range alphabet {
		strs = append(strs, string([]byte{x}))
		for _, y := range alphabet {
			strs = append(strs, string([]byte{x, y}))
		}
	}
	strs = append(strs,
		"abc", "abd", "ab\xff",
		"abcdefg", "abcdefgh", "abcdefghi", "abcdefghij",
		"abcdefgi", "abcdefgh\x00", "abcdefgh\xff", "abcdefghi\x01",
	)

	for _, src := range strs {
		l := int32(len(src) * 8)
		for from := int32(0); from <= l; from += 3 {
			for to := from; to <= l; to++ {
				bs := New(src, from, to)

				for _, key := range strs {
					want := naiveCmpUptoB(key, src, from, to)

					got := CmpUpto([]byte(key), bs)
					if got != want {
						t.Fatalf("CmpUpto(%q, New(%q, %d, %d)=%s) = %d, want %d",
							key, src, from, to, binFmt(bs), got, want)
					}

					// StrCmpUpto hands CmpUpto a slice header whose cap field is
					// not initialised (unsafe cast of a string header), and
					// CmpUpto re-slices `a` when len(bs) > 2 and key covers the
					// payload. Only call it where no such re-slice happens, so
					// that this demo does not depend on stack garbage.
					if true {
						gots := StrCmpUpto(key, bs)
						if gots != want {
							t.Fatalf("StrCmpUpto(%q, New(%q, %d, %d)=%s) = %d, want %d",
								key, src, from, to, binFmt(bs), gots, want)
						}
					}
				}
			}
		}
	}

	// hand computed: "ab" = 01100001 01100010, "ac" = 01100001 01100011.
	// Their first 15 bits are the same, so "ac" truncated to 15 bits is equal
	// to the 15-bit string made from "ab".
	{
		bs := New("ab", 0, 15)
		if c := CmpUpto([]byte("ac"), bs); c != 0 {
			t.Fatalf(`CmpUpto("ac", New("ab", 0, 15)) = %d, want 0`, c)
		}
	}

	// same with one byte: "b" = 01100010, "c" = 01100011 share their first 7
	// bits.
	{
		bs := New("b", 0, 7)
		if c := CmpUpto([]byte("c"), bs); c != 0 {
			t.Fatalf(`CmpUpto("c", New("b", 0, 7)) = %d, want 0`, c)
		}
		if c := StrCmpUpto("c", bs); c != 0 {
			t.Fatalf(`StrCmpUpto("c", New("b", 0, 7)) = %d, want 0`, c)
		}
	}
}
