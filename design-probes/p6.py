from z3 import *
import time, sys
def PC(x, n, outw=32):
    s = BitVecVal(0, outw)
    for b in range(n):
        s = s + ZeroExt(outw-1, Extract(b,b,x))
    return s
def clz32(x):
    r = BitVecVal(32,32)
    for b in range(32):
        r = If(Extract(b,b,x)==1, BitVecVal(31-b,32), r)
    return r
tables = {0:[0],1:[0],2:[0,1,(1<<32)+1],
 4:[0,2,3,(1<<32)+3,(2<<32)+2,(2<<32)+3,(3<<32)+3],
 8:[0,4,6,7,(1<<32)+7,(2<<32)+6,(2<<32)+7,(3<<32)+7,(4<<32)+4,(4<<32)+6,(4<<32)+7,(5<<32)+7,(6<<32)+6,(6<<32)+7,(7<<32)+7]}
def index_to_path(h, index, oob):
    # h: python int, index: BV32 ; oob: list collecting out-of-bounds conditions
    p2 = BitVecVal(0,64)
    mask = BitVecVal(0x0100000001 << h, 64)
    if h > 4:
        i1 = index - h; i2 = index
        diffbits = 32 - clz32(i1 ^ i2)            # BV32
        fixed = BitVecVal(h+1,32) - diffbits
        cond = fixed > 0   # signed
        m = (mask << 1) - (BitVecVal(0x0100000001,64) << ZeroExt(32,diffbits))
        p2n = ((ZeroExt(32,index) << 32) | BitVecVal(0xffffffff,64)) & m
        # careful: uint64(index) with index int32: sign-extend! 
        p2n = ((SignExt(32,index) << 32) | BitVecVal(0xffffffff,64)) & m
        m32 = Extract(31,0,m)  # int32(m): truncation
        indexn = (index & ~m32) - fixed + PC(index & m32, 32)
        maskn = LShR(mask, ZeroExt(32,fixed))
        p2 = If(cond, p2n, p2); index = If(cond, indexn, index); mask = If(cond, maskn, mask)
    done = BoolVal(False)
    for it in range(h+2):
        c = And(Not(done), (mask & 15) == 0, index > 0)
        mp = ((SignExt(32,index) << 32) | BitVecVal(0xffffffff,64)) & mask
        hi = Extract(63,32,mp)
        p2 = If(c, p2 | mp, p2)
        index = If(c, If(hi==0, index-1, index-hi), index)
        mask = If(c, LShR(mask,1), mask)
        done = Or(done, Not(c))
    unwind_ok = Not(And((mask & 15)==0, index>0))  # loop must have exited
    # table lookup
    key = mask & 15
    val = BitVecVal(0,64); inb = BoolVal(False)
    for kk,tab in tables.items():
        for ii,v in enumerate(tab):
            hit = And(key==kk, index==ii)
            val = If(hit, BitVecVal(v,64), val); inb = Or(inb, hit)
    return (LShR(p2,1) | val), inb, unwind_ok
def path_to_index_full(path):
    return (Extract(31,0,LShR(path,32)) << 1) + PC(path ^ BitVecVal(0xffffffff00000000,64), 64) - 32
def wellformed(p, h):
    pm = Extract(31,0,p); pb = Extract(63,32,p)
    # mask is left-aligned consecutive ones within h bits: pm == ((1<<l)-1) << (h-l) for some l; pb & ~pm == 0
    ok = BoolVal(False)
    for l in range(h+1):
        ok = Or(ok, pm == BitVecVal(((1<<l)-1) << (h-l), 32))
    return And(ok, (pb & ~pm) == 0)
for h in [int(a) for a in sys.argv[1:]]:
    idx = BitVec('idx',32)
    p, inb, unw = index_to_path(h, idx, [])
    pre = And(idx >= 0, idx < (1<<(h+1))-1)
    s = Solver(); s.set('timeout', 600000)
    s.add(pre, Not(And(inb, unw, wellformed(p,h), path_to_index_full(p)==idx)))
    t=time.time(); r=s.check(); print('h=%d'%h, 'proved' if r==unsat else r, '%.2fs'%(time.time()-t), flush=True)
    if r==sat: print(s.model())
