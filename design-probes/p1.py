from z3 import *
import time
def PC(x, n=64, outw=32):
    # definitional popcount: sum of bits
    s = BitVecVal(0, outw)
    for b in range(n):
        s = s + ZeroExt(outw-1, Extract(b,b,x))
    return s
def PCtree(x):
    # Hacker's delight popcount (as Go's implementation)
    m0=0x5555555555555555; m1=0x3333333333333333; m2=0x0f0f0f0f0f0f0f0f
    x = LShR(x,1)&m0 + (x&m0) if False else (LShR(x,1)&BitVecVal(m0,64)) + (x&BitVecVal(m0,64))
    x = (LShR(x,2)&BitVecVal(m1,64)) + (x&BitVecVal(m1,64))
    x = (LShR(x,4)+x)&BitVecVal(m2,64)
    x = x + LShR(x,8); x = x + LShR(x,16); x = x + LShR(x,32)
    return Extract(31,0,x) & 0x7f
def lowmask(j): # j: BV64 in 0..64
    return (BitVecVal(1,64) << j) - 1
x = BitVec('x',64); j = BitVec('j',64)
def prove(name, f, timeout=120000):
    s = Solver(); s.set('timeout', timeout); s.add(Not(f))
    t=time.time(); r = s.check(); print(name, 'unsat=proved' if r==unsat else r, '%.2fs'%(time.time()-t), flush=True)
# (b) step lemma
prove('pc_step', Implies(ULT(j,64), PC(x & lowmask(j+1)) == PC(x & lowmask(j)) + ZeroExt(31, Extract(0,0,LShR(x,j)))))
prove('pc_full', PC(x & lowmask(BitVecVal(63,64))) + ZeroExt(31, Extract(63,63,x)) == PC(x))
prove('pc_tree_eq_def', PC(x) == PCtree(x))
