from z3 import *
import time
PC = Function('PC32', BitVecSort(32), BitVecSort(32))
idx0,index,P2,M2,lvl,h = BitVecs('idx0 index P2 M2 lvl h',32)
one=BitVecVal(1,32)
l = h - lvl
inv = lambda P2,M2,lvl,index: And(idx0 == P2 + (h-lvl) - PC(P2) + index, index >= 0, index <= (one<<(lvl+1))-2,
                                 M2 == ((one << (h-lvl)) - 1) << (lvl+1), (P2 & ~M2)==0, lvl>=0, lvl<=h)
# step
b = LShR(index, lvl) & 1
P2n = P2 | (b << lvl); M2n = M2 | (one << lvl)
indexn = If(b==0, index-1, index-(b<<lvl))
lvln = lvl-1
hyps=[ULE(h,30), h>=0, inv(P2,M2,lvl,index), lvl>=4, index>0,
      # lemma pc_or_bit instance: bit not set in x  ==> PC(x | 1<<j) = PC(x)+1
      Implies((P2 & (one<<lvl))==0, PC(P2 | (one<<lvl)) == PC(P2)+1)]
s=Solver(); s.set('timeout',120000); s.add(*hyps); s.add(Not(inv(P2n,M2n,lvln,indexn)))
t=time.time(); r=s.check(); print('loop step', r, '%.2fs'%(time.time()-t))
if r==sat: print(s.model())
