from z3 import *
import time, sys
def prove(name, f, hyps=[], timeout=120000):
    s = Solver(); s.set('timeout', timeout); s.add(*hyps); s.add(Not(f))
    t=time.time(); r = s.check(); dt=time.time()-t
    print(name, 'proved' if r==unsat else r, '%.2fs'%dt, flush=True)
    return dt
W=64
T=BitVec('T',W); P=BitVec('P',W)
def bit(x,j): return ZeroExt(W-1, Extract(j,j,x))
def Spec2(T,P,h):  # level-wise: sum_j T_j * (P >> (h-j)), j=0..h
    s=BitVecVal(0,W)
    for j in range(h+1):
        s = s + If(Extract(j,j,T)==1, LShR(P, h-j), BitVecVal(0,W))
    return s
tot=0
for (h,k) in [(30,15),(30,29),(30,0),(20,10),(5,2)]:
    hyps=[ULT(T, 1<<(h+1)), ULT(P, 1<<k)]
    tot+=prove('BA h=%d k=%d'%(h,k), Spec2(T, P|(1<<k), h) == Spec2(T,P,h) + LShR(T, h-k), hyps)
# symbolic k, fixed h
h=30
k=BitVec('k',W)
hyps=[ULT(T, 1<<(h+1)), ULT(k,h), ULT(P, BitVecVal(1,W)<<k)]
prove('BA h=30 symbolic k', Spec2(T, P|(BitVecVal(1,W)<<k), h) == Spec2(T,P,h) + LShR(T, h-k), hyps)
