from z3 import *
import time, sys
from multiprocessing import Pool
def PC(x, n, outw=32):
    s = BitVecVal(0, outw)
    for b in range(n): s = s + ZeroExt(outw-1, Extract(b,b,x))
    return s
def clz32(x):
    r = BitVecVal(32,32)
    for b in range(32): r = If(Extract(b,b,x)==1, BitVecVal(31-b,32), r)
    return r
def run(args):
    h,db = args
    index = BitVec('idx',32)
    mask = BitVecVal(0x0100000001 << h, 64)
    i1 = index - h
    diffbits = 32 - clz32(i1 ^ index)
    dbc = BitVecVal(db,32)
    fixedv = h+1-db
    fixed = BitVecVal(fixedv,32)
    m = (mask << 1) - BitVecVal((0x0100000001 << db) & (2**64-1),64)
    p2 = ((SignExt(32,index) << 32) | BitVecVal(0xffffffff,64)) & m
    m32 = Extract(31,0,m)
    index2 = (index & ~m32) - fixed + PC(index & m32, 32)
    P2 = Extract(63,32,p2); M2 = Extract(31,0,p2)
    l = PC(M2,32); lvl = h - fixedv
    pre = And(index >= 0, index < (1<<(h+1))-1, diffbits == dbc)
    goal = And(l == fixed, index == P2 + l - PC(P2,32) + index2, index2 >= 0,
               index2 <= BitVecVal((1 << (lvl+1)) - 2,32), (P2 & ~M2) == 0,
               M2 == BitVecVal((((1 << fixedv) - 1) << (lvl+1)) & 0xffffffff,32))
    s = Solver(); s.set('timeout',60000); s.add(pre, Not(goal))
    t=time.time(); r=s.check(); return (h,db,str(r),time.time()-t)
if __name__=='__main__':
    hs=[int(a) for a in sys.argv[1:]]
    jobs=[(h,db) for h in hs for db in range(0,h+1)]   # fixed>0 <=> db<=h
    t=time.time()
    with Pool(16) as p: res=p.map(run, jobs)
    bad=[r for r in res if r[2]!='unsat']
    print('jobs',len(jobs),'max %.2fs'%max(r[3] for r in res),'sum %.1fs'%sum(r[3] for r in res),'wall %.1fs'%(time.time()-t),'not-unsat',bad)
