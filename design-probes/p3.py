from z3 import *
import time, sys
def PC(x, n=64, outw=32):
    s = BitVecVal(0, outw)
    for b in range(n):
        s = s + ZeroExt(outw-1, Extract(b,b,x))
    return s
def lowmask(j): return (BitVecVal(1,64) << j) - 1
def prove(name, f, timeout=300000, hyps=[]):
    s = Solver(); s.set('timeout', timeout); s.add(*hyps); s.add(Not(f))
    t=time.time(); r = s.check(); print(name, 'proved' if r==unsat else r, '%.2fs'%(time.time()-t), flush=True)
    if r==sat: print(s.model())
# sel8(b, j): position of j-th one in byte b, 8 if none -- as nested ite spec
def sel8(b, j):  # b: BV8, j: BV64
    res = BitVecVal(8,64)
    # iterate bits from high to low so lowest matching wins
    for pos in reversed(range(8)):
        below = PC(ZeroExt(56,b) & BitVecVal((1<<pos)-1,64), 8, 64)
        res = If(And(Extract(pos,pos,b)==1, below==j), BitVecVal(pos,64), res)
    return res
w = BitVec('w',64); f = BitVec('f',64)
ww = w; base = BitVecVal(0,64); fi = f
ones = PC(ww & 0xffffffff, 64, 64)
c = ULE(ones, fi); fi = If(c, fi-ones, fi); base = If(c, base|32, base); ww = If(c, LShR(ww,32), ww)
ones = PC(ww & 0xffff, 64, 64)
c = ULE(ones, fi); fi = If(c, fi-ones, fi); base = If(c, base|16, base); ww = If(c, LShR(ww,16), ww)
ones = PC(ww & 0xff, 64, 64)
c = ULE(ones, fi)
# a = lookup[(ww>>5)&0x7f8 | (fi-ones)] + base + 8   else lookup[(ww&0xff)<<3|fi] + base
idx1 = (LShR(ww,5) & 0x7f8) | (fi-ones)
idx2 = ((ww & 0xff) << 3) | fi
def lookup(idx):
    return sel8(Extract(10,3,idx), ZeroExt(61, Extract(2,0,idx)))
q = If(c, lookup(idx1)+base+8, lookup(idx2)+base)
pre = ULT(f, PC(w,64,64))
prove('inword_select_bit', Implies(pre, And(ULT(q,64), Extract(0,0,LShR(w,q))==1)))
prove('inword_select_rank', Implies(pre, PC(w & lowmask(q),64,64) == f))
