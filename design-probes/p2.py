from z3 import *
import time
def PC(x, n=64, outw=32):
    s = BitVecVal(0, outw)
    for b in range(n):
        s = s + ZeroExt(outw-1, Extract(b,b,x))
    return s
def PCbal(x, lo=0, hi=64, outw=8):
    if hi-lo==1: return ZeroExt(outw-1, Extract(lo,lo,x))
    mid=(lo+hi)//2
    return PCbal(x,lo,mid,outw)+PCbal(x,mid,hi,outw)
def lowmask(j): return (BitVecVal(1,64) << j) - 1
x = BitVec('x',64); j = BitVec('j',64)
def prove(name, f, timeout=120000):
    s = Solver(); s.set('timeout', timeout); s.add(Not(f))
    t=time.time(); r = s.check(); print(name, 'proved' if r==unsat else r, '%.2fs'%(time.time()-t), flush=True)
bitj = lambda w: ZeroExt(w-1, Extract(0,0,LShR(x,j)))
prove('pc_step_w8_chain', Implies(ULT(j,64), PC(x & lowmask(j+1),64,8) == PC(x & lowmask(j),64,8) + bitj(8)))
prove('pc_step_w8_bal', Implies(ULT(j,64), PCbal(x & lowmask(j+1)) == PCbal(x & lowmask(j)) + bitj(8)))
t=time.time()
for jj in range(64):
    s=Solver(); s.add(Not(PC(x & lowmask(BitVecVal(jj+1,64))) == PC(x & lowmask(BitVecVal(jj,64))) + ZeroExt(31, Extract(jj,jj,x))))
    assert s.check()==unsat
print('64-way split chain32: %.2fs'%(time.time()-t))
t=time.time()
for jj in range(64):
    s=Solver(); s.add(Not(PCbal(x & lowmask(BitVecVal(jj+1,64))) == PCbal(x & lowmask(BitVecVal(jj,64))) + ZeroExt(7, Extract(jj,jj,x))))
    assert s.check()==unsat
print('64-way split bal8: %.2fs'%(time.time()-t))
