from z3 import *
import time
def prove(name, f, hyps=[], timeout=120000):
    s = Solver(); s.set('timeout', timeout); s.add(*hyps); s.add(Not(f))
    t=time.time(); r = s.check(); dt=time.time()-t
    print(name, 'proved' if r==unsat else r, '%.2fs'%dt, flush=True)
    if r==sat: print(s.model())
W=64
T,P,k,h,n,s0,s1 = BitVecs('T P k h n s0 s1', W)
one=BitVecVal(1,W)
lm=lambda j: (one<<j)-1
bit=lambda x,j: (LShR(x,j)&1)==1
term=lambda Pv: If(bit(T,n), LShR(Pv, h-n), BitVecVal(0,W))
hyps=[ULE(h,30), ULT(k,h), ULE(n,h), ULT(T, one<<(h+1)), ULT(P, one<<k),
      s1 == s0 + LShR(T & lm(n), h-k)]
goal = s1 + term(P|(one<<k)) == s0 + term(P) + LShR(T & lm(n+1), h-k)
prove('shiftmul_bitadd step (symbolic h,k,n)', goal, hyps)
# base n=0: S(.,0)=0 both; (T & lm(0))>>.. = 0 trivial.
# final use: at n=h+1: S(T,P|2^k,h,h+1) = S(T,P,h,h+1) + (T & lm(h+1))>>(h-k) = ... + T>>(h-k) since T<2^(h+1)
prove('final', LShR(T & lm(h+1), h-k) == LShR(T,h-k), [ULE(h,30), ULT(k,h), ULT(T, one<<(h+1))])
