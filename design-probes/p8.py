from z3 import *
import time, sys
def PC(x, n, outw=32):
    s = BitVecVal(0, outw)
    for b in range(n): s = s + ZeroExt(outw-1, Extract(b,b,x))
    return s
def clz32(x):
    r = BitVecVal(32,32)
    for b in range(32): r = If(Extract(b,b,x)==1, BitVecVal(31-b,32), r)
    return r
tot=0
for h in range(5,31):
    index = BitVec('idx',32)
    mask = BitVecVal(0x0100000001 << h, 64)
    i1 = index - h
    diffbits = 32 - clz32(i1 ^ index)
    fixed = BitVecVal(h+1,32) - diffbits
    m = (mask << 1) - (BitVecVal(0x0100000001,64) << ZeroExt(32,diffbits))
    p2 = ((SignExt(32,index) << 32) | BitVecVal(0xffffffff,64)) & m
    m32 = Extract(31,0,m)
    index2 = (index & ~m32) - fixed + PC(index & m32, 32)
    # decoded: path*2 representation: P2 = high half of p2 (= 2P), Mk2 = low half (= 2*M)
    P2 = Extract(63,32,p2); M2 = Extract(31,0,p2)
    l = PC(M2,32)             # number of fixed levels
    lvl = BitVecVal(h,32) - fixed
    pre = And(index >= 0, index < (1<<(h+1))-1, fixed > 0)
    goal = And(l == fixed,
               index == P2 + l - PC(P2,32) + index2,      # idx0 = 2P + l - PC(P) + index'
               index2 >= 0, index2 <= (BitVecVal(1,32) << (lvl+1)) - 2,
               # fixed path bits lie within the mask*2 and mask is left-aligned l ones at height h (in *2 coords)
               (P2 & ~M2) == 0,
               M2 == ((BitVecVal(1,32) << fixed) - 1) << (lvl+1))
    s = Solver(); s.set('timeout',120000); s.add(pre, Not(goal))
    t=time.time(); r=s.check(); dt=time.time()-t; tot+=dt
    print('h=%d'%h, 'proved' if r==unsat else r, '%.2fs'%dt, flush=True)
    if r==sat: print(s.model()); break
print('total %.1fs'%tot)
