from z3 import *
import time
def prove(name, f, hyps=[], timeout=120000):
    s = Solver(); s.set('timeout', timeout); s.add(*hyps); s.add(Not(f))
    t=time.time(); r = s.check(); print(name, 'proved' if r==unsat else r, '%.2fs'%(time.time()-t), flush=True)
    if r==sat: print(s.model())
W=64  # result/arith width
def level(k):
    # prove sel_{2k} correct from sel_k correct, PC_k uninterpreted
    K=2*k
    PCk = Function('PC%d'%k, BitVecSort(k), BitVecSort(W))
    selk = Function('sel%d'%k, BitVecSort(k), BitVecSort(W), BitVecSort(W))
    x = BitVec('x',K); f = BitVec('f',W)
    lo = Extract(k-1,0,x); hi = Extract(K-1,k,x)
    PCK = lambda y: PCk(Extract(k-1,0,y)) + PCk(Extract(K-1,k,y))
    lowmaskK = lambda q: (BitVecVal(1,K) << Extract(K-1,0,q)) - 1 if K<=W else None
    lowmaskk = lambda q: (BitVecVal(1,k) << Extract(k-1,0,q)) - 1
    bitK = lambda y,q: Extract(0,0,LShR(y, Extract(K-1,0,q)))==1
    bitk = lambda y,q: Extract(0,0,LShR(y, Extract(k-1,0,q)))==1
    def correct_k(y, g):  # hypothesis instance
        r = selk(y,g)
        return Implies(ULT(g, PCk(y)), And(ULT(r,k), bitk(y,r), PCk(y & lowmaskk(r)) == g))
    selK = If(ULT(f, PCk(lo)), selk(lo,f), k + selk(hi, f-PCk(lo)))
    hyps = [correct_k(lo,f), correct_k(hi, f-PCk(lo)), PCk(BitVecVal(0,k))==0, ULE(PCk(lo),k), ULE(PCk(hi),k)]
    goal = Implies(ULT(f, PCK(x)), And(ULT(selK,K), bitK(x,selK), PCK(x & lowmaskK(selK)) == f))
    prove('sel%d_from_sel%d'%(K,k), goal, hyps)
for k in (8,16,32): level(k)
# base: sel8 by definition exhaustive
def PC8def(b, outw=W):
    s = BitVecVal(0,outw)
    for i in range(8): s = s + ZeroExt(outw-1, Extract(i,i,b))
    return s
def sel8def(b, j):
    res = BitVecVal(8,W)
    for pos in reversed(range(8)):
        below = PC8def(b & BitVecVal((1<<pos)-1,8))
        res = If(And(Extract(pos,pos,b)==1, below==j), BitVecVal(pos,W), res)
    return res
b = BitVec('b',8); j = BitVec('j',W)
r = sel8def(b,j)
prove('sel8_base', Implies(ULT(j,PC8def(b)), And(ULT(r,8), Extract(0,0,LShR(b,Extract(7,0,r)))==1, PC8def(b & ((BitVecVal(1,8)<<Extract(7,0,r))-1))==j)))
