#!/bin/bash
# tools/seedbatch.sh <outfile> <id>/<variant> ... : confirm seeded changes and run the checks against them on a private
# clone of /repo (never touches /repo; the check runs with -no-evidence, so /verif/evidence is not rewritten either). Meant for `vp run -- tools/seedbatch.sh ...` or direct use.
# Seeds are read from /tmp/seeded-out/<id>/<variant>/ (or /verif/seeded/<id>-<variant>/ when the former is missing).
export GOFLAGS=-mod=mod GOPROXY=off GOSUMDB=off GOTOOLCHAIN=local
V=$(pwd)
out=$1; shift
R=$(mktemp -d /tmp/seedrun-XXXXXX)
trap 'rm -rf $R' EXIT
git clone -q /repo $R/repo || exit 2
[ -x $V/bin/govc ] || (cd $V && go build -o bin/govc ./cmd/govc) || exit 2
: > $out
for sv in "$@"; do
  id=${sv%/*}; v=${sv#*/}
  src=/tmp/seeded-out/$id/$v; [ -f $src/patch.diff ] || src=/verif/seeded/$id-$v
  [ -f $src/patch.diff ] || { echo "$sv: no patch" >> $out; continue; }
  cd $R/repo && git checkout -q -- . && git clean -fdq
  demo=$(python3 -c "import json;m=json.load(open('$src/meta.json'));print(m.get('demo_file',''))")
  ddir=$(python3 -c "import json;m=json.load(open('$src/meta.json'));print(m.get('demo_dir','').strip('./'))")
  dcmd=$(python3 -c "import json;m=json.load(open('$src/meta.json'));print(m.get('demo_cmd',''))")
  [ -f "$src/$demo" ] || demo=$(ls $src | grep _test.go | head -1)
  # hide the contract files while confirming (the sub-agents worked without them)
  mkdir -p $R/hide; for f in $(git ls-files | grep zz_contracts_verif.go); do mkdir -p $R/hide/$(dirname $f); mv $f $R/hide/$f; done
  cp $src/$demo $ddir/
  (eval "$dcmd" >/dev/null 2>&1); r0=$?
  if ! git apply $src/patch.diff 2>/dev/null; then echo "$sv: PATCH-DOES-NOT-APPLY" >> $out; rm -f $ddir/$demo; for f in $(cd $R/hide && find . -type f); do mv $R/hide/$f $f; done; continue; fi
  go build ./... >/dev/null 2>&1; rb=$?
  mv $ddir/$demo $R/demo.keep
  suite=$(go test -vet=off -count=1 ./... 2>&1 | grep -E "^(FAIL|ok)[[:space:]]" | grep "^FAIL" | grep -v zipf | head -3 | tr '\n' ' ')
  mv $R/demo.keep $ddir/$demo
  (eval "$dcmd" >/dev/null 2>&1); r1=$?
  rm -f $ddir/$demo
  for f in $(cd $R/hide && find . -type f); do mv $R/hide/$f $f; done
  # the check, on the clone with the change applied
  (cd $V && bin/govc -repo $R/repo -verif $V -prop $id -tier quick -no-evidence > $R/check.out 2>&1); rc=$?
  fails=$(grep -E "^FAILED" $R/check.out | sed 's/^FAILED *//' | cut -c1-160 | head -6 | tr '\n' ';')
  viol=$(grep -c "^VIOLATION" $R/check.out)
  nofail=$(grep -c "no-failing-input-found" $R/check.out)
  err=$(grep -E "^(ERROR|engine error|contract error)" $R/check.out | head -2 | cut -c1-200 | tr '\n' ';')
  summ=$(grep -E "obligations," $R/check.out | tail -1 | cut -c1-120)
  echo "$sv: build=$rb suite=[${suite}] demo_without=$r0 demo_with=$r1 check_exit=$rc violations=$viol nofailinput=$nofail :: $fails $err :: $summ" >> $out
  cp $R/check.out /tmp/seeded-out/$id-$v.check 2>/dev/null
  cd $R/repo && git checkout -q -- . && git clean -fdq
done
echo DONE >> $out
