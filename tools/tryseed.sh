#!/bin/bash
# tools/tryseed.sh <id> <variant> [govc args]: apply a seeded patch to /repo, run govc without writing evidence, revert.
id=$1; v=$2; shift 2
src=/tmp/seeded-out/$id/$v; [ -f $src/patch.diff ] || src=/verif/seeded/$id-$v
if [ -n "$(git -C /repo status --porcelain)" ]; then echo "REFUSING: /repo dirty"; exit 2; fi
git -C /repo apply $src/patch.diff || exit 2
/verif/bin/govc -prop $id -tier quick -no-evidence "$@" 2>&1 | grep -E "^(FAILED|VIOLATION|ERROR|NOTE|KNOWN)|obligations," | cut -c1-300
git -C /repo checkout -- .
