#!/bin/bash
# usage: tools/mut.sh <repo-relative file> <sed expression> <govc args...>
# Applies a source rewrite through a go/packages overlay (nothing is written into /repo) and runs govc.
set -e
f=$1; expr=$2; shift 2
d=$(mktemp -d /tmp/govc-mut.XXXXXX)
trap 'rm -rf "$d"' EXIT
sed -e "$expr" "/repo/$f" > "$d/mut.go"
if cmp -s "/repo/$f" "$d/mut.go"; then echo "mutation did not change the file"; exit 3; fi
diff "/repo/$f" "$d/mut.go" | head -5
printf '{"%s": "%s"}' "/repo/$f" "$d/mut.go" > "$d/ov.json"
/verif/bin/govc -overlay "$d/ov.json" -no-evidence "$@" || true
