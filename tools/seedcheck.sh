#!/bin/bash
# tools/seedcheck.sh <id> <variant> : confirm a seeded change in its scratch worktree, then run ./check against it in /repo.
export GOFLAGS=-mod=mod GOPROXY=off GOSUMDB=off GOTOOLCHAIN=local
id=$1; v=$2; src=/tmp/seeded-out/$id/$v; wt=/tmp/wt/$id
if [ -n "$(git -C /repo status --porcelain)" ]; then echo "REFUSING: /repo has uncommitted changes (commit contract edits first)"; exit 2; fi
[ -f $src/patch.diff ] || { echo "no patch"; exit 2; }
cd $wt && git checkout -q -- . && git clean -fdq && find . -name zz_contracts_verif.go -delete
demo=$(python3 -c "import json;m=json.load(open('$src/meta.json'));print(m.get('demo_file',''))")
ddir=$(python3 -c "import json;m=json.load(open('$src/meta.json'));print(m.get('demo_dir','').strip('./'))")
dcmd=$(python3 -c "import json;m=json.load(open('$src/meta.json'));print(m.get('demo_cmd',''))")
[ -f "$src/$demo" ] || demo=$(ls $src | grep _test.go | head -1)
cp $src/$demo $wt/$ddir/
echo "== demo WITHOUT change: $dcmd"
(cd $wt && eval "$dcmd" 2>&1 | tail -3); r0=${PIPESTATUS[0]}
(cd $wt && eval "$dcmd" >/dev/null 2>&1); r0=$?
git apply $src/patch.diff || { echo "patch does not apply"; exit 2; }
echo "== build+suite WITH change"
go build ./... && go test -vet=off -count=1 ./... 2>&1 | grep -v "^ok\|no test files" | grep -v zipf | head -5
(cd $wt && eval "$dcmd" >/dev/null 2>&1); r1=$?
echo "demo exit without=$r0 with=$r1"
rm -f $wt/$ddir/$demo
git checkout -q -- . && git clean -fdq; find . -name zz_contracts_verif.go -delete
# run my check in /repo
cd /repo && git apply $src/patch.diff || { echo "patch does not apply to /repo"; exit 2; }
cp /verif/evidence/$id.json /tmp/seeded-out/$id.evidence.bak 2>/dev/null
cd /verif && ./check $id > /tmp/seeded-out/$id-$v.check 2>&1; rc=$?
cp /tmp/seeded-out/$id.evidence.bak /verif/evidence/$id.json 2>/dev/null  # evidence must describe the unchanged tree
git -C /repo checkout -- . 
echo "check exit=$rc"; grep -E "^FAILED|^VIOLATION|^ERROR|^KNOWN|obligations," /tmp/seeded-out/$id-$v.check | cut -c1-250
