#!/usr/bin/env python3
# tools/seedmeta.py <id> <variant>: copy a confirmed seeded change from /tmp/seeded-out into /verif/seeded/<id>-<v>/
# and merge the sub-agent's meta.json with the outcome of my check (/tmp/seeded-out/<id>-<v>.check).
import json,sys,os,shutil,re
i,v=sys.argv[1],sys.argv[2]
src='/tmp/seeded-out/%s/%s'%(i,v); dst='/verif/seeded/%s-%s'%(i,v)
os.makedirs(dst,exist_ok=True)
for f in os.listdir(src): shutil.copy(os.path.join(src,f),dst)
m=json.load(open(os.path.join(dst,'meta.json')))
out=open('/tmp/seeded-out/%s-%s.check'%(i,v)).read()
failed=re.findall(r'^FAILED (\S+)',out,re.M)
viol=re.findall(r'^VIOLATION .*$',out,re.M)
summary=[l for l in out.splitlines() if re.match(r'^C\d\d: \d+ obligations',l)]
m.update({
 "property":i,"variant":v,
 "author":"independent sub-agent given only the property text and a scratch worktree without the contract files",
 "confirmed_by_me":"tools/seedcheck.sh %s %s: patch applies to a clean scratch worktree; go build ./... and the suite pass with it (only the pre-existing mathext/zipf failures); the demo passes without the change and fails with it"%(i,v),
 "check_run":"git -C /repo apply patch.diff; ./check %s; git -C /repo checkout -- ."%i,
 "check_result":"detected" if viol else "MISSED",
 "failed_obligations":failed,
 "replay_with_concrete_input": any('no-failing-input-found' not in l for l in viol) if viol else False,
 "check_summary": summary[-1] if summary else "",
})
if len(sys.argv)>3: m["note"]=sys.argv[3]
json.dump(m,open(os.path.join(dst,'meta.json'),'w'),indent=1)
print(dst,m["check_result"],len(failed))
