#!/usr/bin/env python3
# Regenerates /verif/MANIFEST.json from /verif/props.json (claimed properties) and
# /verif/not_applicable.json (reasons for the rest).
import json,subprocess
hookcommits=[l.split()[0] for l in subprocess.check_output(['git','-C','/repo','log','--format=%h %s']).decode().splitlines() if l.split(' ',1)[1].startswith('verif')]
props=[json.loads(l) for l in open('/verif/properties.jsonl')]
cfg=json.load(open('/verif/props.json'))
na=json.load(open('/verif/not_applicable.json'))
claimed=[p for p in cfg if cfg[p].get('claimed',True)]
m={
 "version":1,
 "setup_cmd":"cd /verif && GOFLAGS=-mod=mod GOPROXY=off GOSUMDB=off GOTOOLCHAIN=local go build -o bin/govc ./cmd/govc",
 "hooks":{
  "guard":"verif",
  "enable":"govc loads /repo with go/packages BuildFlags -tags=verif; the guarded files (<pkg>/zz_contracts_verif.go) are comment-only contract files (//@ lines) and add no code",
  "baseline_off_cmd":"cd /repo && go test -mod=mod -vet=off -count=1 ./...",
  "source_commits":hookcommits,
  "add_only":True
 },
 "engines":[{"name":"govc","path":"/verif/cmd/govc","serves_properties":sorted(claimed),"kind_free_text":"contract-based deductive verifier for Go written for this task: symbolic execution / weakest-precondition style VC generation over go/ssa (NaiveForm) of the real functions under contract, contracts as //@ comments in guarded files, engine-side quantifier instantiation, obligations discharged by a z3 5.1 / cvc5 1.0 / z3 4.8 portfolio; counterexamples replayed on the real code through a go test -overlay driver"}],
 "checks":[],
 "not_applicable":[],
 "notes":"Technique: contract-based deductive verification of the real code (DESIGN.md). ./check Cxx decides one property; evidence lists functions under contract, obligations, back ends, solver time and every assumption."
}
for p in props:
    i=p['id']
    if i in claimed:
        c=cfg[i]
        lvl=c.get('level','proof')
        text=("every obligation generated from the contracts of the functions the property depends on (postconditions taken from the statement, loop invariants, bounds/no-panic, frame) is discharged by an SMT solver for all inputs, loops unbounded via invariants. "+c.get('explanation',''))
        m["checks"].append({
          "property_id":i,
          "quick_cmd":"./check %s --tier quick"%i,
          "thorough_cmd":"./check %s --tier thorough"%i,
          "evidence_file":"/verif/evidence/%s.json"%i,
          "replay_cmd_template":"./check %s --replay {path}"%i,
          "engine":"govc",
          "level_claimed":{"category":lvl,"text":text,"design_ref":"DESIGN.md section 4 / "+i},
          "level_note":"trusted: the VC generator (govc), go/ssa, the SMT solvers, the assumed contracts of functions outside the module; stated domain restrictions; partial correctness (no termination, no memory exhaustion). "+("; ".join(c.get('assumptions',[])))+((" NOT decided by obligations: "+"; ".join(c['unproved'])) if c.get('unproved') else ""),
          "technique":"contract-based deductive verification (requires/ensures/loop invariants on the real Go code, VCs generated from go/ssa, discharged by z3/cvc5)"
        })
    else:
        m["not_applicable"].append({"property_id":i,"reason":na.get(i,"contracts for this property are not finished yet (work in progress)")})
json.dump(m,open('/verif/MANIFEST.json','w'),indent=1)
print("claimed:",sorted(claimed))
