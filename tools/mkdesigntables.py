#!/usr/bin/env python3
# Regenerates the machine-written tables of DESIGN.md (between <!-- BEGIN:x --> / <!-- END:x --> markers)
# from props.json, evidence/*.json, known_findings.json and seeded/*/meta.json.
import json,glob,os,re
props=[json.loads(l) for l in open('/verif/properties.jsonl')]
cfg=json.load(open('/verif/props.json'))
na=json.load(open('/verif/not_applicable.json'))
def status():
    rows=["| id | claimed | level | functions under contract | obligations (all discharged) | lemmas proved | wall (quick) | clauses of the statement NOT decided by obligations |","|---|---|---|---|---|---|---|---|"]
    for p in props:
        i=p['id']; c=cfg.get(i)
        if c is None or not c.get('claimed',True):
            rows.append("| %s | no | – | – | – | – | – | %s |"%(i,na.get(i,'see section 5').replace('|','/')))
            continue
        e=json.load(open('/verif/evidence/%s.json'%i)); cov=e['coverage']
        und='; '.join(u.split(':')[0] if len(u)>160 else u for u in c.get('unproved',[])) or '–'
        tr=cov.get('functions_trusted_contract_bounded_check') or []
        fn="%d"%len(cov['functions_under_contract'])+(" (+%d trusted, bounded check)"%len(tr) if tr else "")
        rows.append("| %s | yes | %s | %s | %d / %d | %d | %.0f s | %s |"%(i,e['level'],fn,cov['discharged'],cov['obligations'],len(cov.get('lemmas_proved') or []),e['wall_s'],und.replace('|','/')))
    return "\n".join(rows)
def findings():
    rows=["| property | obligation that failed on the original tree | failing input (real code) | repair (`fix:` commit in /repo) |","|---|---|---|---|"]
    for k in json.load(open('/verif/known_findings.json')):
        rows.append("| %s | `%s` | %s | %s: %s |"%(k['property'],k['obligation'].replace('github.com/openacid/low/',''),k.get('input','').replace('|','/'),k.get('commit',''),k['what'].replace('|','/')))
    return "\n".join(rows)
def seeded():
    rows=["| seed | what the change does (author: independent sub-agent, property text only) | detected by | obligations that fail | concrete replay |","|---|---|---|---|---|"]
    for d in sorted(glob.glob('/verif/seeded/*/meta.json')):
        m=json.load(open(d)); name=os.path.basename(os.path.dirname(d))
        obl=[o.replace('github.com/openacid/low/','') for o in m.get('failed_obligations',[])]
        more=''
        if len(obl)>3: more=' (+%d more)'%(len(obl)-3); obl=obl[:3]
        rows.append("| %s | %s | `./check %s`: %s | %s%s | %s |"%(name,(m.get('summary','')[:260]+('…' if len(m.get('summary',''))>260 else '')).replace('|','/').replace('\n',' '),m['property'],m.get('check_result','?'),'; '.join('`%s`'%o for o in obl),more,'yes' if m.get('replay_with_concrete_input') else 'no-failing-input-found'))
    return "\n".join(rows)
s=open('/verif/DESIGN.md').read()
for name,fn in (('status',status),('findings',findings),('seeded',seeded)):
    pat=re.compile(r'(<!-- BEGIN:%s -->\n).*?(<!-- END:%s -->)'%(name,name),re.S)
    if pat.search(s):
        s=pat.sub(lambda m: m.group(1)+fn()+"\n"+m.group(2),s)
open('/verif/DESIGN.md','w').write(s)
