#!/bin/bash
# tools/benignbatch.sh <outfile> <id>/<variant> ... : run the checks against BEHAVIOUR-PRESERVING changes
# (/tmp/benign/<id>/<variant>/patch.diff) on a private clone of /repo, to measure false alarms. Never touches /repo.
export GOFLAGS=-mod=mod GOPROXY=off GOSUMDB=off GOTOOLCHAIN=local
V=$(pwd)
out=$1; shift
R=$(mktemp -d /tmp/benignrun-XXXXXX)
trap 'rm -rf $R' EXIT
git clone -q /repo $R/repo || exit 2
[ -x $V/bin/govc ] || (cd $V && go build -o bin/govc ./cmd/govc) || exit 2
: > $out
for sv in "$@"; do
  id=${sv%/*}; v=${sv#*/}
  src=/tmp/benign/$id/$v
  [ -f $src/patch.diff ] || { echo "$sv: no patch" >> $out; continue; }
  cd $R/repo && git checkout -q -- . && git clean -fdq
  if ! git apply $src/patch.diff 2>/dev/null; then echo "$sv: PATCH-DOES-NOT-APPLY" >> $out; continue; fi
  go build ./... >/dev/null 2>&1; rb=$?
  suite=$(go test -vet=off -count=1 ./... 2>&1 | grep -E "^(FAIL|ok)[[:space:]]" | grep "^FAIL" | grep -v zipf | head -3 | tr '\n' ' ')
  (cd $V && bin/govc -repo $R/repo -verif $V -prop $id -tier quick -no-evidence > $R/check.out 2>&1); rc=$?
  fails=$(grep -E "^FAILED" $R/check.out | sed 's/^FAILED *//' | cut -c1-140 | head -3 | tr '\n' ';')
  viol=$(grep -c "^VIOLATION" $R/check.out)
  err=$(grep -E "^ERROR" $R/check.out | head -2 | cut -c1-180 | tr '\n' ';')
  kind=$(python3 -c "import json;print(json.load(open('$src/meta.json')).get('kind','?')[:60])" 2>/dev/null)
  echo "$sv: [$kind] build=$rb suite=[${suite}] check_exit=$rc violations=$viol :: $fails $err" >> $out
  cp $R/check.out /tmp/benign/$id-$v.check 2>/dev/null
  cd $R/repo && git checkout -q -- . && git clean -fdq
done
echo DONE >> $out
