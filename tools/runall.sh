#!/bin/bash
# run every claimed check on the current tree, validate manifest + evidence
cd /verif
ids=$(python3 -c "import json;print(' '.join(c['property_id'] for c in json.load(open('MANIFEST.json'))['checks']))")
for id in $ids; do ./check $id ${1:+--tier $1} | tail -1; echo "  exit=${PIPESTATUS[0]}"; done
python3-vt -c "
import json,jsonschema,glob
m=json.load(open('/verif/MANIFEST.json'))
jsonschema.validate(m,json.load(open('/root/.vp/MANIFEST.schema.json')))
for c in m['checks']:
    e=json.load(open(c['evidence_file']))
    jsonschema.validate(e,json.load(open('/root/.vp/EVIDENCE.schema.json')))
    cov=e['coverage']
    assert e['violations']==0,(c['property_id'],'violations')
    if e['level']=='proof': assert cov['obligations']==cov['discharged'],(c['property_id'],cov['obligations'],cov['discharged'])
print('manifest+evidence ok')"
