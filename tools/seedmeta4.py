#!/usr/bin/env python3
# tools/seedmeta4.py <id> <src variant> <dst variant> [note]: like seedmeta.py, for seeds confirmed by tools/seedbatch.sh
# (private clone of /repo); the seed is stored as /verif/seeded/<id>-<dst>/.
import json,sys,os,shutil,re
i,sv,dv=sys.argv[1],sys.argv[2],sys.argv[3]
src='/tmp/seeded-out/%s/%s'%(i,sv); dst='/verif/seeded/%s-%s'%(i,dv)
os.makedirs(dst,exist_ok=True)
for f in os.listdir(src): shutil.copy(os.path.join(src,f),dst)
m=json.load(open(os.path.join(dst,'meta.json')))
out=open('/tmp/seeded-out/%s-%s.check'%(i,sv)).read()
line=[l for b in sorted(os.listdir('/tmp/seeded-out')) if b.startswith('batch') for l in open('/tmp/seeded-out/'+b) if l.startswith('%s/%s:'%(i,sv))][-1]
assert 'demo_without=0 demo_with=1' in line and 'build=0' in line, line
failed=re.findall(r'^FAILED (\S+)',out,re.M)
viol=re.findall(r'^VIOLATION .*$',out,re.M)
summary=[l for l in out.splitlines() if re.match(r'^C\d\d: \d+ obligations',l)]
m.update({
 "property":i,"variant":dv,"round":int(os.environ.get("SEED_ROUND","4")),
 "author":"independent sub-agent given only the property text and a scratch worktree (rounds 4-8: asked for changes that need a specific input, sequence, fault point or two cooperating sites)",
 "confirmed_by_me":"tools/seedbatch.sh on a private clone of /repo without the contract files: the patch applies; go build ./... and the suite pass with it (only the pre-existing mathext/zipf failures); the demo passes without the change (exit 0) and fails with it (exit 1)",
 "check_run":"on the clone with the patch applied: bin/govc -repo <clone> -prop %s -tier quick (= ./check %s against that tree)"%(i,i),
 "check_result":"detected" if viol else "MISSED",
 "failed_obligations":failed,
 "replay_with_concrete_input": any('no-failing-input-found' not in l for l in viol) if viol else False,
 "check_summary": summary[-1] if summary else "",
})
if len(sys.argv)>4: m["note"]=sys.argv[4]
json.dump(m,open(os.path.join(dst,'meta.json'),'w'),indent=1)
print(dst,m["check_result"],len(failed))
