package main

// Witness search / replay on the real code (attaches a concrete failing input to a report).

func runWitnessSearch(prop string, o *Obligation, repo, verif string) map[string]interface{} {
	return nil
}
