package main

// Witness search / replay on the real code.
//
// A generic reflect-based driver (driver_tmpl.go) is injected into the package under test with
// `go test -overlay`; it calls the REAL function on concrete inputs (those of the solver's
// model where they are small enough, plus seeded random / boundary inputs) and dumps inputs,
// outputs and post-state. govc then evaluates the function's own contract on those concrete
// values with the same evaluator that produced the VCs (all terms are constants, so the
// clauses fold to true/false). A record whose requires fold to true and whose ensures fold to
// false, that panics, or that changes an argument under "assigns nothing" is a confirmed
// failing input. This only attaches an input to a report; the deciding step is the obligation.

import (
	"bufio"
	"encoding/json"
	"fmt"
	"go/types"
	"math/big"
	"math/rand"
	"os"
	"os/exec"
	"path/filepath"
	"sort"
	"strings"
	"time"

	"golang.org/x/tools/go/ssa"
)

var theWorld *World

type concreteBuilder struct {
	st        *State
	w         *World
	interp    map[string]*Term // values of uninterpreted spec functions at concrete arguments
	calls     *[]concCall      // logged calls of interface models (post state)
	nextIface int64
	nextReg   int64
}

func (cb *concreteBuilder) newReg() *Term {
	cb.nextReg++
	return BVInt(cb.nextReg, 32)
}

func jsonInt(j interface{}) (*big.Int, bool) {
	s, ok := j.(string)
	if !ok {
		return nil, false
	}
	v, ok := new(big.Int).SetString(s, 10)
	return v, ok
}

// build converts a dumped JSON value of type ty into a program Value, writing heap contents.
func (cb *concreteBuilder) build(ty *STy, j interface{}, reuse Value) (Value, bool) {
	switch ty.K {
	case TInt:
		v, ok := jsonInt(j)
		if !ok {
			return nil, false
		}
		return VScalar{BVConst(v, ty.W), ty}, true
	case TBool:
		b, ok := j.(bool)
		return VScalar{BoolConst(b), ty}, ok
	case TIface:
		// interface values: nil, a named package-level error value, a model of an interface
		// parameter (stream / writer / message), or an opaque non-nil identity
		if j == nil {
			return VScalar{BVInt(0, 32), ty}, true
		}
		if m, ok := j.(map[string]interface{}); ok {
			if _, isErr := m["text"]; isErr {
				return VScalar{cb.errID(m), ty}, true
			}
			if kind, ok := m["model"].(string); ok {
				return cb.buildModel(kind, m, ty, reuse)
			}
		}
		cb.nextIface++
		return VScalar{BVInt(0x10000000+cb.nextIface, 32), ty}, true
	case TSlice:
		m, ok := j.(map[string]interface{})
		if !ok {
			return nil, false
		}
		if _, huge := m["huge"]; huge {
			return nil, false
		}
		var elems []interface{}
		if ty.IsStr {
			elems, _ = m["str"].([]interface{})
		} else {
			elems, _ = m["slice"].([]interface{})
		}
		n := int64(len(elems))
		if n > concMaxLen {
			concMaxLen = n
		}
		cp := n
		if c, ok := m["cap"].(float64); ok {
			cp = int64(c)
		}
		var reg *Term
		if rs, ok := reuse.(VSlice); ok {
			reg = rs.Reg
		} else {
			reg = cb.newReg()
		}
		e := ty.Elem
		// zero the region, then store elements
		for _, key := range elemHeapKeys(e) {
			srt := compSort(key, e)
			h, ok := cb.st.heaps[key]
			if !ok {
				h = ConstArrOfArr(srt)
			}
			var z *Term
			if srt.IsBool() {
				z = False
			} else {
				z = BVInt(0, srt.W)
			}
			cb.st.heaps[key] = Store(h, reg, ConstArr(ArrSort(IdxSort, srt), z))
		}
		for i, ej := range elems {
			var ev Value
			var ok bool
			if ty.IsStr {
				ev, ok = cb.build(tyU8, ej, nil)
			} else {
				ev, ok = cb.build(e, ej, nil)
			}
			if !ok {
				return nil, false
			}
			storeElem(cb.st, e, reg, BVInt(int64(i), 64), ev)
		}
		return VSlice{Reg: reg, Off: BVInt(0, 64), Len: BVInt(n, 64), Cap: BVInt(cp, 64), Ty: ty}, true
	case TPtr:
		m, ok := j.(map[string]interface{})
		if !ok {
			return nil, false
		}
		fs, _ := m["struct"].(map[string]interface{})
		var ref *Term
		if ro, ok := reuse.(PObj); ok {
			ref = ro.Ref
		} else {
			ref = cb.newReg()
		}
		s := ty.Named.Underlying().(*types.Struct)
		for i := 0; i < s.NumFields(); i++ {
			ft := tyFromGo(s.Field(i).Type())
			fj, ok := fs[s.Field(i).Name()]
			if !ok {
				continue
			}
			if ft.K == TArray && ft.Elem.scalarSort() != nil {
				// array field: its elements live in a ghost region of their own
				am, _ := fj.(map[string]interface{})
				elems, _ := am["slice"].([]interface{})
				akey := fieldKey(ty.Named, i, "areg")
				if _, ok := cb.st.heaps[akey]; !ok {
					cb.st.heaps[akey] = ConstArr(ArrSort(RegSort, RegSort), BVInt(0, 32))
				}
				var areg *Term
				if _, isReuse := reuse.(PObj); isReuse {
					areg = Select(cb.st.heaps[akey], ref)
				}
				if areg == nil || !areg.IsConst() || areg.Val.Sign() == 0 {
					areg = cb.newReg()
					cb.st.heaps[akey] = Store(cb.st.heaps[akey], ref, areg)
				}
				ekey := heapKey(ft.Elem, "")
				srt := ft.Elem.scalarSort()
				h, ok := cb.st.heaps[ekey]
				if !ok {
					h = ConstArrOfArr(srt)
				}
				cb.st.heaps[ekey] = Store(h, areg, ConstArr(ArrSort(IdxSort, srt), BVInt(0, srt.W)))
				for k, ej := range elems {
					ev, ok := cb.build(ft.Elem, ej, nil)
					if !ok {
						return nil, false
					}
					storeElem(cb.st, ft.Elem, areg, BVInt(int64(k), 64), ev)
				}
				continue
			}
			if ft.K == TArray || ft.K == TOpaque || ft.K == TStruct || ft.K == TIface {
				continue
			}
			fv, ok := cb.build(ft, fj, nil)
			if !ok {
				return nil, false
			}
			// field heaps default to constant-zero arrays
			for _, key := range fieldKeys(ty.Named, i) {
				if _, ok := cb.st.heaps[key]; !ok {
					srt := compSort(key, ft)
					var z *Term
					if srt.IsBool() {
						z = False
					} else {
						z = BVInt(0, srt.W)
					}
					cb.st.heaps[key] = ConstArr(ArrSort(RegSort, srt), z)
				}
			}
			storeField(cb.st, ty.Named, i, ref, fv)
		}
		return PObj{ref, ty}, true
	}
	return nil, false
}

// concMaxLen: the longest slice/string of the record being evaluated; a quantifier whose finite
// domain is smaller gives only definitive answers (a counterexample to a forall, a witness of an
// exists) - otherwise the clause stays undetermined
var concMaxLen int64

// witnessBudgetSecs: wall-clock budget of one concrete search / bounded check (set by tier)
var witnessBudgetSecs = 45

type concCall struct {
	seq  int
	kind string
	args []Value
	rets []Value
}

func (cb *concreteBuilder) setInterp(fn string, val *Term, args ...*Term) {
	if cb.interp == nil {
		return
	}
	k := "sf." + fn
	for _, a := range args {
		k += "|" + a.Val.String()
	}
	cb.interp[k] = val
}

// errID: the identity of a dumped error value. Named package-level error values get the
// identity the contracts use for that variable; anything else a fresh one. cause() is recorded.
func (cb *concreteBuilder) errID(m map[string]interface{}) *Term {
	named := func(n string) *Term {
		if n == "" || cb.w == nil {
			return nil
		}
		if strings.HasPrefix(n, "verif.") {
			id := int64(0x30000001)
			if n == "verif.injected2" {
				id++
			}
			return BVInt(id, 32)
		}
		k := strings.LastIndex(n, ".")
		for _, p := range cb.w.Pkgs {
			if p.Pkg.Name() == n[:k] {
				if g, ok := p.Members[n[k+1:]].(*ssa.Global); ok {
					if v, ok := cb.w.symbolicGlobal(g, &STy{K: TIface}).(VScalar); ok {
						return v.T
					}
				}
			}
		}
		return nil
	}
	name, _ := m["err"].(string)
	id := named(name)
	if id == nil {
		cb.nextIface++
		id = BVInt(0x10000000+cb.nextIface, 32)
	}
	cname, _ := m["cause"].(string)
	if c := named(cname); c != nil {
		cb.setInterp("cause", c, id)
		cb.setInterp("cause", c, c)
	} else if name != "" {
		cb.setInterp("cause", id, id)
	}
	return id
}

// buildModel: an interface parameter filled by one of the driver's models. The uninterpreted
// functions / ghost state of the stream model (06_stream.spec) get their concrete values.
func (cb *concreteBuilder) buildModel(kind string, m map[string]interface{}, ty *STy, reuse Value) (Value, bool) {
	var id *Term
	if rv, ok := reuse.(VScalar); ok && rv.T.IsConst() {
		id = rv.T
	} else {
		cb.nextIface++
		id = BVInt(0x20000000+cb.nextIface, 32)
	}
	bytesOf := func(j interface{}) ([]*Term, bool) {
		mm, ok := j.(map[string]interface{})
		if !ok {
			return nil, false
		}
		l, ok := mm["slice"].([]interface{})
		if !ok {
			l, _ = mm["str"].([]interface{})
		}
		var out []*Term
		for _, e := range l {
			v, ok := jsonInt(e)
			if !ok {
				return nil, false
			}
			out = append(out, BVConst(v, 8))
		}
		return out, true
	}
	errOf := func(j interface{}) *Term {
		if em, ok := j.(map[string]interface{}); ok {
			return cb.errID(em)
		}
		return BVInt(0, 32)
	}
	i64 := func(n int) *Term { return BVInt(int64(n), 64) }
	logCalls := func(callKind string, mk func(c map[string]interface{}, p Value) ([]Value, []Value)) {
		cs, _ := m["calls"].([]interface{})
		for _, cj := range cs {
			c, _ := cj.(map[string]interface{})
			if c == nil || cb.calls == nil {
				continue
			}
			pv, ok := cb.build(&STy{K: TSlice, Elem: tyU8}, c["p"], nil)
			if !ok {
				continue
			}
			seq, _ := c["seq"].(float64)
			args, rets := mk(c, pv)
			*cb.calls = append(*cb.calls, concCall{int(seq), callKind, args, rets})
		}
	}
	intOf := func(j interface{}, w int) *Term {
		if v, ok := jsonInt(j); ok {
			return BVConst(v, w)
		}
		return BVInt(0, w)
	}
	self := VScalar{id, ty}
	switch kind {
	case "reader":
		data, ok := bytesOf(m["data"])
		if !ok {
			return nil, false
		}
		cb.setInterp("rdlen", i64(len(data)), id)
		for i, b := range data {
			cb.setInterp("rdbyte", b, id, i64(i))
		}
		cb.setInterp("rdfail", errOf(m["fail"]), id)
		pos := intOf(m["pos"], 64)
		h, ok := cb.st.heaps[ghostKey("rdpos")]
		if !ok {
			h = ConstArr(ArrSort(RegSort, IdxSort), BVInt(0, 64))
		}
		cb.st.heaps[ghostKey("rdpos")] = Store(h, id, pos)
	case "writer":
		logCalls("io.Writer.Write", func(c map[string]interface{}, p Value) ([]Value, []Value) {
			return []Value{self, p, VScalar{intOf(c["off"], 64), &STy{K: TInt, W: 64, Signed: true}}}, []Value{VScalar{intOf(c["n"], 64), tyInt}, VScalar{errOf(c["err"]), &STy{K: TIface}}}
		})
	case "msg", "vmsg":
		body, ok := bytesOf(m["body"])
		if !ok {
			return nil, false
		}
		merr := errOf(m["merr"])
		cb.setInterp("pbErr", merr, id)
		cb.setInterp("pbLen", i64(len(body)), id)
		for i, b := range body {
			cb.setInterp("pbByte", b, id, i64(i))
		}
		cb.setInterp("isVersionedMessage", BoolConst(kind == "vmsg"), id)
		if kind == "vmsg" {
			ver, ok := bytesOf(m["ver"])
			if !ok {
				return nil, false
			}
			cb.setInterp("verLen", i64(len(ver)), id)
			for i, b := range ver {
				cb.setInterp("verByte", b, id, i64(i))
			}
		}
		logCalls("github.com/golang/protobuf/proto.Unmarshal", func(c map[string]interface{}, p Value) ([]Value, []Value) {
			return []Value{p, self}, []Value{VScalar{errOf(c["err"]), &STy{K: TIface}}}
		})
	default:
		return nil, false
	}
	return self, true
}

type groundEval struct {
	w        *World
	dom      int64
	budget   int
	memo     map[*Term]*Term
	deadline time.Time // evaluation of one record gives up (undetermined) after this
	qdepth   int
}

// guardWithin: every bound variable of quantifier t is confined by its guard (conjuncts "v < c" /
// "v <= c" with c evaluating to a constant) to values <= d, so that the finite domain [-1, d] covers
// the whole range the guard admits (all ranges in contracts start at 0 or above).
func (g *groundEval) guardWithin(t *Term, d int64) bool {
	body := t.Args[0]
	var guard *Term
	switch {
	case t.Op == "forall" && body.Op == "=>":
		guard = body.Args[0]
	case t.Op == "exists":
		guard = body
	default:
		return false
	}
	var conj []*Term
	splitConj(guard, &conj)
	for _, b := range t.Bound {
		ok := false
		for _, c := range conj {
			if len(c.Args) != 2 {
				continue
			}
			l, r := unmark(c.Args[0]), unmark(c.Args[1])
			if l != b {
				continue
			}
			if c.Op != "bvslt" && c.Op != "bvsle" && c.Op != "bvult" && c.Op != "bvule" {
				continue
			}
			if containsTerm(r, t.Bound) {
				continue
			}
			rv := g.eval(r)
			if !rv.IsConst() {
				continue
			}
			v := toSigned(rv.Val, rv.S.W)
			if v.IsInt64() && v.Int64() <= d+1 {
				ok = true
			}
		}
		if !ok {
			return false
		}
	}
	return true
}

func containsTerm(t *Term, vars []*Term) bool {
	for _, v := range vars {
		if t == v {
			return true
		}
	}
	for _, a := range t.Args {
		if containsTerm(a, vars) {
			return true
		}
	}
	return false
}

// eval folds a closed formula over concrete data: quantifiers are expanded over a finite
// domain, spec function applications with constant arguments are unfolded.
func (g *groundEval) eval(t *Term) *Term {
	if t == True || t == False || t.IsConst() {
		return t
	}
	if r, ok := g.memo[t]; ok {
		return r
	}
	g.budget--
	if g.budget < 0 {
		return t
	}
	if g.budget&1023 == 0 && !g.deadline.IsZero() && time.Now().After(g.deadline) {
		g.budget = -1
		return t
	}
	var r *Term
	switch t.Op {
	case "forall", "exists":
		isAll := t.Op == "forall"
		doms := make([][]*Term, len(t.Bound))
		d := g.dom
		if len(t.Bound) > 1 {
			d = 24
		}
		// nested quantifiers range over smaller domains (the concrete data is small)
		switch {
		case g.qdepth == 1 && d > 40:
			d = 40
		case g.qdepth >= 2 && d > 14:
			d = 14
		}
		g.qdepth++
		defer func() { g.qdepth-- }()
		for i, b := range t.Bound {
			if b.S.IsBool() {
				doms[i] = []*Term{True, False}
				continue
			}
			if !b.S.IsBV() {
				return t
			}
			if b.Key == "iface" {
				// interface identities: only the models of this record are known
				for k := range g.w.concreteInterp {
					if strings.HasPrefix(k, "sf.pbLen|") {
						if v, ok := new(big.Int).SetString(strings.TrimPrefix(k, "sf.pbLen|"), 10); ok {
							doms[i] = append(doms[i], BVConst(v, 32))
						}
					}
				}
				if len(doms[i]) == 0 {
					return t
				}
				continue
			}
			for v := int64(-1); v <= d; v++ {
				doms[i] = append(doms[i], BVInt(v, b.S.W))
			}
		}
		idx := make([]int, len(doms))
		res := BoolConst(isAll)
		undet := false
	loop:
		for {
			m := map[*Term]*Term{}
			for i, b := range t.Bound {
				m[b] = doms[i][idx[i]]
			}
			v := g.eval(Subst(t.Args[0], m))
			switch {
			case v == True && !isAll:
				res = True
				break loop
			case v == False && isAll:
				res = False
				break loop
			case v != True && v != False:
				undet = true
			}
			j := len(idx) - 1
			for j >= 0 {
				idx[j]++
				if idx[j] < len(doms[j]) {
					break
				}
				idx[j] = 0
				j--
			}
			if j < 0 {
				break
			}
			if g.budget < 0 {
				undet = true
				break
			}
		}
		if (undet || (concMaxLen > d && !g.guardWithin(t, d))) && res == BoolConst(isAll) {
			r = t
		} else {
			r = res
		}
	case "app":
		args := make([]*Term, len(t.Args))
		for i, a := range t.Args {
			args[i] = g.eval(a)
		}
		nt := App(t.Name, t.S, args...)
		if g.w.concreteInterp != nil {
			k := t.Name
			allConst := true
			for _, a := range args {
				a = unmark(a)
				if !a.IsConst() {
					allConst = false
					break
				}
				k += "|" + a.Val.String()
			}
			if allConst {
				if v, ok := g.w.concreteInterp[k]; ok {
					r = v
					break
				}
			}
		}
		if strings.HasPrefix(t.Name, "sf.") {
			name := strings.TrimPrefix(t.Name, "sf.")
			if fn := g.w.SpecFns[name]; fn != nil && fn.Body != nil {
				if eq, err := g.w.unfoldApp(nt); err == nil && eq.Op == "=" {
					body := eq.Args[0]
					if unmark(body) == nt {
						body = eq.Args[1]
					}
					r = g.eval(body)
					break
				}
			}
		}
		r = nt
	case "ite":
		c := g.eval(t.Args[0])
		if c == True {
			r = g.eval(t.Args[1])
		} else if c == False {
			r = g.eval(t.Args[2])
		} else {
			r = Ite(c, g.eval(t.Args[1]), g.eval(t.Args[2]))
		}
	case "and":
		r = True
		for _, a := range t.Args {
			v := g.eval(a)
			if v == False {
				r = False
				break
			}
			r = And(r, v)
		}
	case "or":
		r = False
		for _, a := range t.Args {
			v := g.eval(a)
			if v == True {
				r = True
				break
			}
			r = Or(r, v)
		}
	case "=>":
		a := g.eval(t.Args[0])
		if a == False {
			r = True
		} else {
			r = Implies(a, g.eval(t.Args[1]))
		}
	default:
		if len(t.Args) == 0 {
			r = t
			break
		}
		args := make([]*Term, len(t.Args))
		ch := false
		for i, a := range t.Args {
			args[i] = g.eval(a)
			if args[i] != a {
				ch = true
			}
		}
		if ch {
			r = rebuild(t, args)
		} else {
			r = t
		}
	}
	g.memo[t] = r
	return r
}

func goTypeString(t types.Type, pkg *types.Package) string {
	return types.TypeString(t, func(p *types.Package) string {
		if p == pkg {
			return ""
		}
		return p.Name()
	})
}

// driverSource generates the replay driver of a package.
func (w *World) driverSource(pkg *ssa.Package) string {
	extraImports := map[string]string{}
	std := map[string]bool{"bytes": true, "encoding/json": true, "errors": true, "fmt": true, "io": true, "math/rand": true, "os": true, "reflect": true, "sort": true, "strconv": true, "testing": true, "unsafe": true}
	typeStr := func(t types.Type) string {
		return types.TypeString(t, func(p *types.Package) string {
			if p == pkg.Pkg {
				return ""
			}
			if !std[p.Path()] {
				extraImports[p.Name()] = p.Path()
			}
			return p.Name()
		})
	}
	var rows []string
	var keys []string
	for k := range w.FuncSpecs {
		keys = append(keys, k)
	}
	sort.Strings(keys)
	for _, k := range keys {
		fs := w.FuncSpecs[k]
		if fs.External || fs.Pkg != pkg.Pkg.Path() || strings.Contains(fs.Name, "$") || strings.HasPrefix(fs.Name, "init") {
			continue
		}
		fn := w.findFunc(fs.Pkg, fs.Name)
		if fn == nil {
			continue
		}
		expr := fs.Name
		if k := strings.Index(fs.Name, "."); k >= 0 {
			recvPtr := false
			if fn.Signature.Recv() != nil {
				_, recvPtr = fn.Signature.Recv().Type().(*types.Pointer)
			}
			if recvPtr {
				expr = "(*" + fs.Name[:k] + ")." + fs.Name[k+1:]
			} else {
				expr = fs.Name[:k] + "." + fs.Name[k+1:]
			}
		}
		gen := ""
		var body []string
		for _, c := range fs.Clauses {
			if c.Kind != "witness-gen" {
				continue
			}
			eq := strings.Index(c.Text, "=")
			if eq < 0 {
				continue
			}
			name := strings.TrimSpace(c.Text[:eq])
			for i, p := range fn.Params {
				if p.Name() == name {
					body = append(body, fmt.Sprintf("%s = %s; verifA[%d] = reflect.ValueOf(%s)", name, strings.TrimSpace(c.Text[eq+1:]), i, name))
				}
			}
		}
		if len(body) > 0 {
			var decl []string
			for i, p := range fn.Params {
				if p.Name() == "" || p.Name() == "_" {
					continue
				}
				decl = append(decl, fmt.Sprintf("%s := verifA[%d].Interface().(%s); _ = %s", p.Name(), i, typeStr(p.Type()), p.Name()))
			}
			// the random source is "rnd" (and "r" too unless a parameter has that name)
			hasR := false
			for _, p := range fn.Params {
				if p.Name() == "r" {
					hasR = true
				}
			}
			pre := "rnd := verifR; _ = rnd; "
			if !hasR {
				pre += "r := verifR; _ = r; "
			}
			gen = ", Gen: func(verifA []reflect.Value, verifR *rand.Rand) { " + pre + strings.Join(decl, "; ") + "; " + strings.Join(body, "; ") + " }"
		}
		rows = append(rows, fmt.Sprintf("\t%q: {F: %s%s},", fs.Name, expr, gen))
	}
	src := strings.Replace(driverTemplate, "PKGNAME", pkg.Pkg.Name(), 1)
	// names of package-level error values (identity is what contracts talk about)
	errRows := []string{`"io.EOF": io.EOF,`, `"io.ErrUnexpectedEOF": io.ErrUnexpectedEOF,`, `"io.ErrShortWrite": io.ErrShortWrite,`}
	var mnames []string
	for n := range pkg.Members {
		mnames = append(mnames, n)
	}
	sort.Strings(mnames)
	errT := types.Universe.Lookup("error").Type()
	for _, n := range mnames {
		if g, ok := pkg.Members[n].(*ssa.Global); ok && n != "init$guard" {
			if types.Identical(g.Type().(*types.Pointer).Elem(), errT) {
				errRows = append(errRows, fmt.Sprintf("%q: %s,", pkg.Pkg.Name()+"."+n, n))
			}
		}
	}
	src = strings.Replace(src, "FUNCTABLE", strings.Join(rows, "\n"), 1)
	var imps []string
	for n, pth := range extraImports {
		imps = append(imps, fmt.Sprintf("\t%s %q", n, pth))
	}
	sort.Strings(imps)
	src = strings.Replace(src, "\t\"bytes\"\n", strings.Join(imps, "\n")+"\n\t\"bytes\"\n", 1)
	return src + "\nfunc init() {\n\tverifErrNames = map[string]error{\n\t\t" + strings.Join(errRows, "\n\t\t") + "\n\t}\n}\n"
}

// modelInputs turns the solver's model into concrete argument lists (when small enough).
func modelInputs(fn *ssa.Function, model map[string]string, rnd *rand.Rand, variants int) []interface{} {
	if len(model) == 0 {
		return nil
	}
	parseBV := func(s string) (*big.Int, bool) {
		s = strings.TrimSpace(s)
		if strings.HasPrefix(s, "#x") {
			v, ok := new(big.Int).SetString(s[2:], 16)
			return v, ok
		}
		if strings.HasPrefix(s, "#b") {
			v, ok := new(big.Int).SetString(s[2:], 2)
			return v, ok
		}
		return nil, false
	}
	var out []interface{}
	for v := 0; v < variants; v++ {
		var args []interface{}
		ok := true
		for _, p := range fn.Params {
			ty := tyFromGo(p.Type())
			switch ty.K {
			case TInt:
				bv, ok2 := parseBV(model[p.Name()])
				if !ok2 {
					ok = false
					break
				}
				if ty.Signed {
					bv = toSigned(bv, ty.W)
				}
				args = append(args, bv.String())
			case TBool:
				args = append(args, strings.TrimSpace(model[p.Name()]) == "true")
			case TSlice:
				bv, ok2 := parseBV(model[p.Name()+".len"])
				if !ok2 || !bv.IsInt64() || bv.Int64() > 64 {
					ok = false
					break
				}
				n := int(bv.Int64())
				if ty.Elem.K != TInt {
					ok = false
					break
				}
				elems := make([]interface{}, n)
				for i := range elems {
					var x uint64
					switch rnd.Intn(4) {
					case 0:
						x = 0
					case 1:
						x = ^uint64(0)
					default:
						x = rnd.Uint64()
					}
					if ty.Elem.W < 64 {
						x &= (1 << uint(ty.Elem.W)) - 1
					}
					if ty.Elem.Signed {
						elems[i] = toSigned(new(big.Int).SetUint64(x), ty.Elem.W).String()
					} else {
						elems[i] = new(big.Int).SetUint64(x).String()
					}
				}
				if ty.IsStr {
					args = append(args, map[string]interface{}{"str": elems})
				} else {
					args = append(args, map[string]interface{}{"slice": elems})
				}
			default:
				ok = false
			}
			if !ok {
				break
			}
		}
		if ok {
			out = append(out, args)
		}
	}
	return out
}

func runWitnessSearch(prop string, o *Obligation, repo, verif string) map[string]interface{} {
	w := theWorld
	if w == nil || o.Lemma || strings.HasPrefix(o.Func, "lemma:") {
		return nil
	}
	fs := w.FuncSpecs[o.Func]
	if fs == nil {
		return nil
	}
	return w.witnessFor(fs, o.Res.Model, repo, 4000, nil)
}

// witnessFor runs the real function and checks its contract on concrete records.
func (w *World) witnessFor(fs *FuncSpec, model map[string]string, repo string, n int, fixedInputs []interface{}) (res map[string]interface{}) {
	defer func() {
		if r := recover(); r != nil {
			res = map[string]interface{}{"confirmed": false, "error": fmt.Sprint(r)}
		}
	}()
	fn := w.findFunc(fs.Pkg, fs.Name)
	if fn == nil || fn.Pkg == nil || strings.Contains(fs.Name, "$") || strings.HasPrefix(fs.Name, "init") {
		return nil
	}
	fi := w.funcInfo(fn)
	dir, err := os.MkdirTemp("", "govc-replay")
	if err != nil {
		return nil
	}
	defer os.RemoveAll(dir)
	rel := strings.TrimPrefix(strings.TrimPrefix(fs.Pkg, modPath), "/")
	pkgDir := filepath.Join(repo, rel)
	drv := filepath.Join(dir, "driver_test.go")
	os.WriteFile(drv, []byte(w.driverSource(fn.Pkg)), 0644)
	repl := map[string]string{filepath.Join(pkgDir, "zz_verif_replay_test.go"): drv}
	for k, v := range overlayPaths {
		repl[k] = v
	}
	ov := map[string]interface{}{"Replace": repl}
	ovb, _ := json.Marshal(ov)
	ovf := filepath.Join(dir, "ov.json")
	os.WriteFile(ovf, ovb, 0644)
	seed := int64(seedFromEnv())
	rnd := rand.New(rand.NewSource(seed + 7))
	fixed := append(fixedInputs, modelInputs(fn, model, rnd, 40)...)
	inf := filepath.Join(dir, "inputs.json")
	fb, _ := json.Marshal(fixed)
	os.WriteFile(inf, fb, 0644)
	outf := filepath.Join(dir, "out.jsonl")
	cmd := exec.Command("go", "test", "-overlay", ovf, "-vet=off", "-timeout", "60s", "-count=1", "-run", "^TestVerifReplay$", ".")
	cmd.Dir = pkgDir
	cmd.Env = append(os.Environ(), "GOFLAGS=-mod=mod", "GOPROXY=off", "GOSUMDB=off", "GOTOOLCHAIN=local",
		"VERIF_FUNC="+fs.Name, fmt.Sprintf("VERIF_N=%d", n), fmt.Sprintf("VERIF_SEED=%d", seed), "VERIF_OUT="+outf, "VERIF_INPUTS="+inf)
	outb, err := cmd.CombinedOutput()
	f, err2 := os.Open(outf)
	if err2 != nil {
		return map[string]interface{}{"confirmed": false, "error": "replay driver did not run: " + firstLines(string(outb), 6)}
	}
	defer f.Close()
	_ = err
	sc := bufio.NewScanner(f)
	sc.Buffer(make([]byte, 1<<20), 1<<26)
	tried, admissible := 0, 0
	stopAt := time.Now().Add(time.Duration(witnessBudgetSecs) * time.Second) // bounded effort
	for sc.Scan() {
		if time.Now().After(stopAt) {
			break
		}
		var rec map[string]interface{}
		if json.Unmarshal(sc.Bytes(), &rec) != nil {
			continue
		}
		tried++
		viol, adm := w.checkRecord(fi, fs, rec)
		if adm {
			admissible++
		}
		if viol != "" {
			return map[string]interface{}{
				"confirmed": true, "function": fs.Pkg + "." + fs.Name, "inputs": rec["in"], "outputs": rec["out"], "panic": rec["panic"],
				"post_state": rec["post"], "violated": viol, "records_tried": tried, "records_admissible": admissible,
				"how": "real function executed through go test -overlay (reflect driver); contract evaluated on the concrete values",
			}
		}
	}
	return map[string]interface{}{"confirmed": false, "records_tried": tried, "records_admissible": admissible}
}

// checkRecord evaluates the contract on one concrete record. It returns a description of the
// violated clause ("" if none) and whether the record satisfied the precondition.
func (w *World) checkRecord(fi *FuncInfo, fs *FuncSpec, rec map[string]interface{}) (viol string, admissible bool) {
	defer func() {
		if r := recover(); r != nil {
			viol, admissible = "", false
		}
	}()
	fn := fi.Fn
	ins, _ := rec["in"].([]interface{})
	posts, _ := rec["post"].([]interface{})
	if len(ins) != len(fn.Params) {
		return "", false
	}
	mk := func() *State {
		return &State{cells: map[*ssa.Alloc]Value{}, regs: map[ssa.Value]Value{}, heaps: map[string]*Term{}, globals: map[*ssa.Global]Value{}}
	}
	concMaxLen = 0
	old := mk()
	interp := map[string]*Term{}
	cb := &concreteBuilder{st: old, w: w, interp: interp}
	w.concreteInterp = interp
	defer func() { w.concreteInterp = nil }()
	var args []Value
	for i, p := range fn.Params {
		v, ok := cb.build(tyFromGo(p.Type()), ins[i], nil)
		if !ok {
			return "", false
		}
		args = append(args, v)
	}
	old.alloc = BVInt(cb.nextReg+1, 32)
	x := &Exec{W: w, top: fi, entry: old, alloc0: old.alloc, counters: map[string]int{}, hints: &Hints{Reveal: map[string]bool{}}}
	w.initPhase = true // concrete tables are not needed; invariants are not assumed
	w.concreteMode = true
	defer func() { w.concreteMode = false }()
	ge := &groundEval{w: w, dom: 330, budget: 400000, memo: map[*Term]*Term{}, deadline: time.Now().Add(1500 * time.Millisecond)}
	pre := x.funcEnv(fi, "pre", old, nil, args, nil)
	for _, c := range fs.Clauses {
		if c.Kind != "requires" {
			continue
		}
		t, err := pre.EvalBool(c.E)
		if err != nil {
			return "", false
		}
		if ge.eval(t) != True {
			return "", false
		}
	}
	admissible = true
	if p, ok := rec["panic"]; ok && p != nil {
		return fmt.Sprintf("the call panics: %v", p), true
	}
	// post state
	cur := mk()
	for k, v := range old.heaps {
		cur.heaps[k] = v
	}
	var calls []concCall
	cb2 := &concreteBuilder{st: cur, w: w, interp: interp, calls: &calls, nextReg: cb.nextReg + 1, nextIface: cb.nextIface + 100}
	cur.alloc = old.alloc
	frameOK := true
	for i, p := range fn.Params {
		if i < len(posts) {
			if _, ok := cb2.build(tyFromGo(p.Type()), posts[i], args[i]); !ok {
				return "", true
			}
			if mm, ok := ins[i].(map[string]interface{}); ok && mm["model"] != nil {
				continue // the state of an interface model (position, call log) is not program memory
			}
			a, _ := json.Marshal(stripCap(ins[i]))
			b, _ := json.Marshal(stripCap(posts[i]))
			if string(a) != string(b) {
				frameOK = false
			}
		}
	}
	assignsNothing := false
	for _, c := range fs.Clauses {
		if c.Kind == "assigns" && strings.TrimSpace(c.Text) == "nothing" {
			assignsNothing = true
		}
	}
	if assignsNothing && !frameOK {
		return "assigns nothing: an argument was modified by the call", true
	}
	// the call log of the interface models, in call order
	sort.Slice(calls, func(i, j int) bool { return calls[i].seq < calls[j].seq })
	for _, c := range calls {
		cur.effects = append(cur.effects, Effect{Kind: c.kind, Args: c.args, Rets: c.rets, Heap: cur.heaps})
	}
	outs, _ := rec["out"].([]interface{})
	var results []Value
	res := fn.Signature.Results()
	for j := 0; j < res.Len() && j < len(outs); j++ {
		rty := tyFromGo(res.At(j).Type())
		// an interface result holding a pointer to a struct of the module (dyntype clause)
		if dm, ok := outs[j].(map[string]interface{}); ok && rty.K == TIface && dm["dyn"] != nil && j < len(fs.Results) {
			if io, ok := x.applyDynType(fi, fs.Results[j], VScalar{BVInt(1, 32), rty}).(VIfaceObj); ok {
				pv, ok := cb2.build(io.Obj.Ty, dm["dyn"], nil)
				if !ok {
					return "", true
				}
				results = append(results, VIfaceObj{Obj: pv.(PObj), Ty: rty})
				continue
			}
		}
		v, ok := cb2.build(rty, outs[j], nil)
		if !ok {
			return "", true
		}
		results = append(results, v)
	}
	post := x.funcEnv(fi, "post", cur, old, args, results)
	n := 0
	for _, c := range fs.Clauses {
		if c.Kind != "ensures" && c.Kind != "checked" {
			continue
		}
		n++
		ge.budget = 400000
		t, err := post.EvalBool(c.E)
		if err != nil {
			if os.Getenv("VERIF_DEBUG_CLAUSES") != "" {
				fmt.Fprintf(os.Stderr, "clause %d: eval error %v\n", n, err)
			}
			continue
		}
		if os.Getenv("VERIF_DEBUG_CLAUSES") != "" {
			r := ge.eval(t)
			s := "undetermined"
			if r == True {
				s = "true"
			} else if r == False {
				s = "false"
			}
			fmt.Fprintf(os.Stderr, "clause %d: %s\n", n, s)
			if s == "undetermined" && os.Getenv("VERIF_DEBUG_CLAUSES") == "2" {
				txt := r.String()
				if len(txt) > 600 {
					txt = txt[:600]
				}
				fmt.Fprintf(os.Stderr, "   residual: %s\n", txt)
				ib, _ := json.Marshal(rec["in"])
				fmt.Fprintf(os.Stderr, "   in: %.700s\n   out: %v\n", ib, rec["out"])
			}
		}
		if ge.eval(t) == False {
			return fmt.Sprintf("%s#%d: %s", c.Kind, n, c.Text), true
		}
	}
	return "", true
}

// overlayPaths: source replacements given with -overlay (self-tests); the replay must run the
// same source the obligations were generated from.
var overlayPaths = map[string]string{}

func stripCap(j interface{}) interface{} {
	switch x := j.(type) {
	case map[string]interface{}:
		m := map[string]interface{}{}
		for k, v := range x {
			if k == "cap" {
				continue
			}
			m[k] = stripCap(v)
		}
		return m
	case []interface{}:
		out := make([]interface{}, len(x))
		for i := range x {
			out[i] = stripCap(x[i])
		}
		return out
	}
	return j
}
