package main

// World: loaded program, contract registries, spec-function application, heap helpers.

import (
	"fmt"
	"go/ast"
	"go/constant"
	"go/token"
	"go/types"
	"math/big"
	"os"
	"path/filepath"
	"sort"
	"strings"

	"golang.org/x/tools/go/packages"
	"golang.org/x/tools/go/ssa"
	"golang.org/x/tools/go/ssa/ssautil"
)

const modPath = "github.com/openacid/low"

type World struct {
	Prog       *ssa.Program
	Trusted    map[string]bool // functions whose contract is trusted (body not verified)
	Checked    map[string][]string // functions with "checked" clauses (concrete-only, bounded)
	concreteInterp map[string]*Term // concrete replay: values of uninterpreted spec functions
	Fset       *token.FileSet
	Pkgs       map[string]*ssa.Package
	PPkgs      map[string]*packages.Package
	SpecFns    map[string]*SpecFn
	Lemmas     map[string]*Lemma
	LemmaOrder []*Lemma
	FuncSpecs  map[string]*FuncSpec // key pkgpath.Name
	GlobalInvs []*GlobalInv
	SpecConsts map[string]SVal
	Obls       []*Obligation
	Errors     []string
	Assumes    map[string]bool // assumption notes collected while generating
	repo       string
	tags       string
	curFunc    string
	ErrIDs     map[*ssa.Global]int
	LemmaUses  map[string]map[string]bool
	initPhase  bool
	concreteMode bool
	FuncErrors map[string]string // functions whose obligations could not be generated
}

func LoadWorld(repo string, tags string, overlay map[string][]byte, patterns []string) (*World, error) {
	cfg := &packages.Config{
		Mode:       packages.LoadAllSyntax,
		Dir:        repo,
		BuildFlags: []string{"-tags=" + tags},
		Overlay:    overlay,
		Env:        append(os.Environ(), "GOFLAGS=-mod=mod", "GOPROXY=off", "GOSUMDB=off", "GOTOOLCHAIN=local"),
	}
	pkgs, err := packages.Load(cfg, patterns...)
	if err != nil {
		return nil, err
	}
	var errs []string
	packages.Visit(pkgs, nil, func(p *packages.Package) {
		for _, e := range p.Errors {
			errs = append(errs, e.Error())
		}
	})
	if len(errs) > 0 {
		return nil, fmt.Errorf("load errors: %s", strings.Join(errs, "; "))
	}
	prog, _ := ssautil.AllPackages(pkgs, ssa.NaiveForm|ssa.InstantiateGenerics)
	prog.Build()
	w := &World{
		Prog: prog, Fset: prog.Fset, Pkgs: map[string]*ssa.Package{}, PPkgs: map[string]*packages.Package{},
		SpecFns: map[string]*SpecFn{}, Lemmas: map[string]*Lemma{}, FuncSpecs: map[string]*FuncSpec{},
		SpecConsts: map[string]SVal{}, Assumes: map[string]bool{}, Trusted: map[string]bool{}, Checked: map[string][]string{}, repo: repo, tags: tags,
		ErrIDs: map[*ssa.Global]int{},
	}
	for _, p := range prog.AllPackages() {
		w.Pkgs[p.Pkg.Path()] = p
	}
	packages.Visit(pkgs, nil, func(p *packages.Package) { w.PPkgs[p.PkgPath] = p })
	return w, nil
}

// LoadSpecs reads the speclib files and the per-package contract files in the repo.
func (w *World) LoadSpecs(speclibDir string) error {
	var files []string
	m, _ := filepath.Glob(filepath.Join(speclibDir, "*.spec"))
	sort.Strings(m)
	files = append(files, m...)
	add := func(sf *SpecFile) error {
		for _, f := range sf.SpecFns {
			if _, dup := w.SpecFns[f.Name]; dup {
				return fmt.Errorf("duplicate spec func %s", f.Name)
			}
			w.SpecFns[f.Name] = f
		}
		for _, l := range sf.Lemmas {
			if _, dup := w.Lemmas[l.Name]; dup {
				return fmt.Errorf("duplicate lemma %s", l.Name)
			}
			w.Lemmas[l.Name] = l
			w.LemmaOrder = append(w.LemmaOrder, l)
		}
		for _, f := range sf.Funcs {
			key := f.Pkg + "." + f.Name
			if f.External {
				key = f.Name
			}
			if _, dup := w.FuncSpecs[key]; dup {
				return fmt.Errorf("duplicate func contract %s", key)
			}
			w.FuncSpecs[key] = f
		}
		w.GlobalInvs = append(w.GlobalInvs, sf.Globals...)
		return nil
	}
	for _, f := range files {
		sf, err := ParseSpecFile(f, "")
		if err != nil {
			return err
		}
		if err := add(sf); err != nil {
			return fmt.Errorf("%s: %v", f, err)
		}
	}
	for path := range w.Pkgs {
		if !strings.HasPrefix(path, modPath) {
			continue
		}
		rel := strings.TrimPrefix(strings.TrimPrefix(path, modPath), "/")
		cf := filepath.Join(w.repo, rel, "zz_contracts_verif.go")
		if _, err := os.Stat(cf); err != nil {
			continue
		}
		sf, err := ParseSpecFile(cf, path)
		if err != nil {
			return err
		}
		if err := add(sf); err != nil {
			return fmt.Errorf("%s: %v", cf, err)
		}
	}
	return nil
}

func (w *World) errorf(f string, a ...interface{}) {
	w.Errors = append(w.Errors, fmt.Sprintf(f, a...))
}

// notef: something worth telling the user that is neither an error nor an assumption
func (w *World) notef(f string, a ...interface{}) {
	fmt.Fprintf(os.Stderr, "NOTE "+f+"\n", a...)
}

var notedOnce = map[string]bool{}

func (w *World) errorOnce(msg string) {
	if !notedOnce["E:"+msg] {
		notedOnce["E:"+msg] = true
		w.Errors = append(w.Errors, msg)
	}
}

func (w *World) noteOnce(msg string) {
	if !notedOnce[msg] {
		notedOnce[msg] = true
		fmt.Fprintln(os.Stderr, "NOTE "+msg)
	}
}

// ---------- constants ----------

func constBig(c *ssa.Const) *big.Int {
	if c.Value == nil {
		return big.NewInt(0)
	}
	v := constant.ToInt(c.Value)
	if v.Kind() != constant.Int {
		return big.NewInt(0)
	}
	b, _ := new(big.Int).SetString(v.ExactString(), 10)
	return b
}

func constTerm(c *ssa.Const, ty *STy) *Term {
	return BVConst(constBig(c), ty.W)
}

// ---------- heaps ----------

// loadElem reads element at absolute position pos of region reg for element type e.
func loadElem(st *State, e *STy, reg, pos *Term) Value {
	switch {
	case e.K == TSlice:
		comp := func(c string, s *Sort) *Term {
			return Select(Select(st.heap(heapKey(e, c), s), Mark(reg, "reg")), pos)
		}
		v := VSlice{Reg: comp("reg", RegSort), Off: comp("off", IdxSort), Len: comp("len", IdxSort), Ty: e}
		if e.IsStr {
			v.Cap = v.Len
		} else {
			v.Cap = comp("cap", IdxSort)
		}
		return v
	case e.scalarSort() != nil:
		t := Select(Select(st.heap(heapKey(e, ""), e.scalarSort()), Mark(reg, "reg")), pos)
		if e.K == TPtr {
			return PObj{t, e}
		}
		return VScalar{t, e}
	}
	panic(vcErr{fmt.Sprintf("loadElem: unsupported element type %s", e)})
}

func storeElem(st *State, e *STy, reg, pos *Term, v Value) {
	upd := func(key string, s *Sort, val *Term) {
		h := st.heap(key, s)
		st.heaps[key] = Store(h, reg, Store(Select(h, Mark(reg, "reg")), pos, val))
	}
	switch {
	case e.K == TSlice:
		sv, ok := v.(VSlice)
		if !ok {
			panic(vcErr{fmt.Sprintf("storeElem: expected slice value, got %T", v)})
		}
		upd(heapKey(e, "reg"), RegSort, sv.Reg)
		upd(heapKey(e, "off"), IdxSort, sv.Off)
		upd(heapKey(e, "len"), IdxSort, sv.Len)
		if !e.IsStr {
			upd(heapKey(e, "cap"), IdxSort, sv.Cap)
		}
	case e.scalarSort() != nil:
		upd(heapKey(e, ""), e.scalarSort(), scalarTerm(v))
	default:
		panic(vcErr{fmt.Sprintf("storeElem: unsupported element type %s", e)})
	}
}

func scalarTerm(v Value) *Term {
	switch x := v.(type) {
	case VScalar:
		return x.T
	case PObj:
		return x.Ref
	case VNilPtr:
		return BVInt(0, 32)
	}
	panic(vcErr{fmt.Sprintf("expected scalar value, got %T", v)})
}

func elemHeapKeys(e *STy) []string {
	if e.K == TSlice {
		ks := []string{heapKey(e, "reg"), heapKey(e, "off"), heapKey(e, "len")}
		if !e.IsStr {
			ks = append(ks, heapKey(e, "cap"))
		}
		return ks
	}
	return []string{heapKey(e, "")}
}

func fieldKey(n *types.Named, i int, comp string) string {
	st := n.Underlying().(*types.Struct)
	k := "F:" + n.Obj().Pkg().Name() + "." + n.Obj().Name() + "." + st.Field(i).Name()
	if comp != "" {
		k += "." + comp
	}
	return k
}

func fieldKeys(n *types.Named, i int) []string {
	st := n.Underlying().(*types.Struct)
	ft := tyFromGo(st.Field(i).Type())
	switch ft.K {
	case TSlice:
		ks := []string{fieldKey(n, i, "reg"), fieldKey(n, i, "off"), fieldKey(n, i, "len")}
		if !ft.IsStr {
			ks = append(ks, fieldKey(n, i, "cap"))
		}
		return ks
	case TArray:
		return []string{fieldKey(n, i, "areg")}
	}
	return []string{fieldKey(n, i, "")}
}

func loadField(st *State, n *types.Named, i int, ref *Term) Value {
	s := n.Underlying().(*types.Struct)
	ft := tyFromGo(s.Field(i).Type())
	r := Mark(ref, "reg")
	switch {
	case ft.K == TSlice:
		comp := func(c string, srt *Sort) *Term { return Select(st.fheap(fieldKey(n, i, c), srt), r) }
		v := VSlice{Reg: comp("reg", RegSort), Off: comp("off", IdxSort), Len: comp("len", IdxSort), Ty: ft}
		if ft.IsStr {
			v.Cap = v.Len
		} else {
			v.Cap = comp("cap", IdxSort)
		}
		return v
	case ft.K == TArray:
		// arrays embedded in heap objects live out of line in a ghost region
		reg := Select(st.fheap(fieldKey(n, i, "areg"), RegSort), r)
		return PArr{Reg: reg, Off: BVInt(0, 64), Ty: ft}
	case ft.scalarSort() != nil:
		t := Select(st.fheap(fieldKey(n, i, ""), ft.scalarSort()), r)
		if ft.K == TPtr {
			return PObj{t, ft}
		}
		return VScalar{t, ft}
	}
	panic(vcErr{fmt.Sprintf("loadField: unsupported field type %s.%s %s", n.Obj().Name(), s.Field(i).Name(), ft)})
}

func storeField(st *State, n *types.Named, i int, ref *Term, v Value) {
	s := n.Underlying().(*types.Struct)
	ft := tyFromGo(s.Field(i).Type())
	upd := func(key string, srt *Sort, val *Term) {
		st.heaps[key] = Store(st.fheap(key, srt), ref, val)
	}
	switch {
	case ft.K == TSlice:
		sv, ok := v.(VSlice)
		if !ok {
			panic(vcErr{fmt.Sprintf("storeField: expected slice, got %T", v)})
		}
		upd(fieldKey(n, i, "reg"), RegSort, sv.Reg)
		upd(fieldKey(n, i, "off"), IdxSort, sv.Off)
		upd(fieldKey(n, i, "len"), IdxSort, sv.Len)
		if !ft.IsStr {
			upd(fieldKey(n, i, "cap"), IdxSort, sv.Cap)
		}
	case ft.scalarSort() != nil:
		upd(fieldKey(n, i, ""), ft.scalarSort(), scalarTerm(v))
	default:
		panic(vcErr{fmt.Sprintf("storeField: unsupported field type %s", ft)})
	}
}

// ---------- globals ----------

func globalName(g *ssa.Global) string { return "G:" + g.Pkg.Pkg.Name() + "." + g.Name() }

// globalValue returns (creating on demand) the symbolic value of a package-level variable.
func (w *World) globalValue(st *State, g *ssa.Global) Value {
	if v, ok := st.globals[g]; ok {
		return v
	}
	ty := tyFromGo(g.Type().(*types.Pointer).Elem())
	v := w.symbolicGlobal(g, ty)
	st.globals[g] = v
	if !w.initPhase {
		// global invariants are assumed lazily, when a table is first touched on a path
		for _, gi := range w.GlobalInvs {
			if gi.Name != g.Name() || gi.Pkg != g.Pkg.Pkg.Path() {
				continue
			}
			gev := &Env{W: w, st: st, pkg: g.Pkg, bound: map[string]SVal{}}
			t, err := gev.EvalBool(gi.E)
			if err != nil {
				w.errorf("global invariant %s: %v", gi.Name, err)
				continue
			}
			st.assume(t)
		}
	}
	return v
}

func (w *World) symbolicGlobal(g *ssa.Global, ty *STy) Value {
	n := globalName(g)
	switch ty.K {
	case TArray:
		if s := ty.Elem.scalarSort(); s != nil {
			return VArr{Var(n, ArrSort(IdxSort, s)), ty}
		}
	case TInt, TBool:
		return VScalar{Var(n, ty.scalarSort()), ty}
	case TIface:
		// package-level error variables: distinct non-nil identities
		id, ok := w.ErrIDs[g]
		if !ok {
			id = len(w.ErrIDs) + 1
			w.ErrIDs[g] = id
		}
		w.Assumes["package-level error variable "+g.Pkg.Pkg.Name()+"."+g.Name()+" is a distinct non-nil value never reassigned"] = true
		return VScalar{BVInt(int64(id), 32), ty}
	case TSlice:
		return VSlice{Reg: Var(n+".reg", RegSort), Off: Var(n+".off", IdxSort), Len: Var(n+".len", IdxSort), Cap: Var(n+".cap", IdxSort), Ty: ty}
	}
	return VOpaque{ty, n}
}

// ---------- spec functions ----------

func specFnSym(name string) string { return "sf." + name }

func (w *World) retTy(fn *SpecFn) *STy {
	t := tyFromName(fn.Ret)
	if t == nil || t.scalarSort() == nil {
		panic(specErr{fmt.Sprintf("spec func %s: unsupported result type %q", fn.Name, fn.Ret)})
	}
	return t
}

func ghostKey(name string) string { return "GH:" + name }

func (w *World) applySpecFn(ev *Env, fn *SpecFn, args []SVal) SVal {
	if fn.Ghost {
		// ghost state: read the current (or, under old(), the entry) value from the state's heap
		rt := w.retTy(fn)
		flat := flatten(args[0])
		if len(flat) != 1 || flat[0].S != RegSort || rt.scalarSort() == nil {
			sfail("ghost %s: key must be an interface/reference, value a scalar", fn.Name)
		}
		if ev.st == nil {
			sfail("ghost %s read without a state", fn.Name)
		}
		return fromElem(Select(ev.st.fheap(ghostKey(fn.Name), rt.scalarSort()), flat[0]), rt)
	}
	if fn.Body != nil && !fn.Recursive && !fn.Opaque {
		return w.evalSpecBody(ev, fn, args)
	}
	var flat []*Term
	for _, a := range args {
		flat = append(flat, flatten(a)...)
	}
	rt := w.retTy(fn)
	t := App(specFnSym(fn.Name), rt.scalarSort(), flat...)
	return fromElem(t, rt)
}

func (w *World) evalSpecBody(ev *Env, fn *SpecFn, args []SVal) SVal {
	if ev.depth > 60 {
		sfail("spec function expansion too deep at %s (missing 'recursive'?)", fn.Name)
	}
	n := &Env{W: w, st: ev.st, pkg: nil, bound: map[string]SVal{}, depth: ev.depth + 1}
	for i, p := range fn.Params {
		a := args[i]
		if si, ok := a.(SInt); ok && ev.depth == 0 {
			// arguments of (inlined) spec functions are instantiation candidates
			a = SInt{Mark(si.T, tyKey(si.Ty)), si.Ty}
		}
		n.bound[p.Name] = a
	}
	v := n.eval(fn.Body)
	rt := w.retTy(fn)
	switch x := v.(type) {
	case SUntyped:
		if rt.K == TInt {
			return SInt{BVConst(x.V, rt.W), rt}
		}
	case SInt:
		if rt.K != TInt || rt.W != x.Ty.W || rt.Signed != x.Ty.Signed {
			sfail("spec func %s: body has type %s, declared %s", fn.Name, x.Ty, rt)
		}
		return SInt{x.T, rt}
	case SBool:
		if rt.K != TBool {
			sfail("spec func %s: body is bool, declared %s", fn.Name, rt)
		}
	}
	return v
}

// unfoldApp returns the defining equation of a spec-function application term.
func (w *World) unfoldApp(app *Term) (eq *Term, err error) {
	name := strings.TrimPrefix(app.Name, "sf.")
	fn := w.SpecFns[name]
	if fn == nil || fn.Body == nil {
		return nil, fmt.Errorf("no body for %s", name)
	}
	defer func() {
		if r := recover(); r != nil {
			if se, ok := r.(specErr); ok {
				err = fmt.Errorf("unfold %s: %s", name, se.msg)
				return
			}
			panic(r)
		}
	}()
	raw := make([]*Term, len(app.Args))
	for i, a := range app.Args {
		raw[i] = unmark(a)
	}
	args := unflatten(raw, fn.Params)
	ev := &Env{W: w, st: &State{heaps: map[string]*Term{}}, bound: map[string]SVal{}}
	v := w.evalSpecBody(ev, fn, args)
	switch x := v.(type) {
	case SInt:
		return Eq(app, x.T), nil
	case SBool:
		return Eq(app, x.T), nil
	}
	return nil, fmt.Errorf("unfold %s: bad body value", name)
}

// ---------- function lookup ----------

// findFunc resolves "Name", "T.Method" or "Name$1" in package pkgPath.
func (w *World) findFunc(pkgPath, name string) *ssa.Function {
	pkg := w.Pkgs[pkgPath]
	if pkg == nil {
		return nil
	}
	base := name
	var anon []string
	if k := strings.Index(name, "$"); k >= 0 {
		base = name[:k]
		anon = strings.Split(name[k+1:], "$")
	}
	var fn *ssa.Function
	if k := strings.Index(base, "."); k >= 0 {
		tn, mn := base[:k], base[k+1:]
		if t, ok := pkg.Members[tn].(*ssa.Type); ok {
			named := t.Type().(*types.Named)
			for _, T := range []types.Type{named, types.NewPointer(named)} {
				ms := w.Prog.MethodSets.MethodSet(T)
				for i := 0; i < ms.Len(); i++ {
					if ms.At(i).Obj().Name() == mn {
						fn = w.Prog.MethodValue(ms.At(i))
					}
				}
			}
		}
	} else {
		fn = pkg.Func(base)
	}
	for _, a := range anon {
		if fn == nil {
			return nil
		}
		var idx int
		fmt.Sscanf(a, "%d", &idx)
		if idx < 1 || idx > len(fn.AnonFuncs) {
			return nil
		}
		fn = fn.AnonFuncs[idx-1]
	}
	return fn
}

func funcKey(fn *ssa.Function) string {
	// package-level: pkgpath.Name ; method: pkgpath.T.Method ; closure: parent$N
	if fn.Parent() != nil {
		p := fn.Parent()
		for i, a := range p.AnonFuncs {
			if a == fn {
				return fmt.Sprintf("%s$%d", funcKey(p), i+1)
			}
		}
	}
	if fn.Pkg == nil {
		if fn.Object() != nil && fn.Object().Pkg() != nil {
			return fn.Object().Pkg().Path() + "." + recvPrefix(fn) + fn.Name()
		}
		return fn.String()
	}
	return fn.Pkg.Pkg.Path() + "." + recvPrefix(fn) + fn.Name()
}

func recvPrefix(fn *ssa.Function) string {
	if fn.Signature.Recv() == nil {
		return ""
	}
	t := fn.Signature.Recv().Type()
	if p, ok := t.(*types.Pointer); ok {
		t = p.Elem()
	}
	if n, ok := t.(*types.Named); ok {
		return n.Obj().Name() + "."
	}
	return ""
}

// astLoopCount counts for/range statements in the function's syntax (closures excluded).
func astLoopCount(fn *ssa.Function) int {
	n := 0
	var body ast.Node
	switch s := fn.Syntax().(type) {
	case *ast.FuncDecl:
		body = s.Body
	case *ast.FuncLit:
		body = s.Body
	}
	if body == nil {
		return -1
	}
	ast.Inspect(body, func(x ast.Node) bool {
		switch x.(type) {
		case *ast.FuncLit:
			return false
		case *ast.ForStmt, *ast.RangeStmt:
			n++
		}
		return true
	})
	return n
}
