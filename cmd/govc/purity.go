package main

// C19: module-wide purity scan over the SSA of ALL functions of the module (not only those
// under contract): package-level variables are written only by initialisers; the listed query
// functions read only their arguments and init-time tables and use no nondeterministic or
// concurrent construct.

import (
	"fmt"
	"go/token"
	"go/types"
	"sort"
	"strings"

	"golang.org/x/tools/go/ssa"
)

// rootGlobal follows an address/value back to a package-level variable, if any.
func rootGlobal(v ssa.Value, depth int) *ssa.Global {
	if depth > 12 {
		return nil
	}
	switch x := v.(type) {
	case *ssa.Global:
		return x
	case *ssa.IndexAddr:
		return rootGlobal(x.X, depth+1)
	case *ssa.FieldAddr:
		return rootGlobal(x.X, depth+1)
	case *ssa.Slice:
		return rootGlobal(x.X, depth+1)
	case *ssa.UnOp:
		if x.Op == token.MUL && pointerLike(x.Type()) {
			// a pointer-like value loaded from a global (e.g. the slice header of a table):
			// stores through it still reach the table's memory
			return rootGlobal(x.X, depth+1)
		}
	case *ssa.Index:
		return rootGlobal(x.X, depth+1)
	case *ssa.Lookup:
		return rootGlobal(x.X, depth+1)
	case *ssa.ChangeType:
		return rootGlobal(x.X, depth+1)
	case *ssa.Convert:
		return rootGlobal(x.X, depth+1)
	case *ssa.Phi:
		for _, e := range x.Edges {
			if g := rootGlobal(e, depth+1); g != nil {
				return g
			}
		}
	case *ssa.Alloc:
		// a local cell holding a pointer/slice derived from a global
		if pt, ok := x.Type().(*types.Pointer); ok && !pointerLike(pt.Elem()) {
			return nil
		}
		if x.Referrers() != nil {
			for _, r := range *x.Referrers() {
				if s, ok := r.(*ssa.Store); ok && s.Addr == x {
					if g := rootGlobal(s.Val, depth+1); g != nil {
						return g
					}
				}
			}
		}
	}
	return nil
}

func isInitFunc(fn *ssa.Function, w *World) bool {
	n := fn.Name()
	if n == "init" || strings.HasPrefix(n, "init#") {
		return true
	}
	if fs := w.FuncSpecs[funcKey(fn)]; fs != nil {
		for _, c := range fs.Clauses {
			if c.Kind == "initphase" {
				// functions only reachable from package initialisation
				return true
			}
		}
	}
	return false
}

func allFuncs(pkg *ssa.Package) []*ssa.Function {
	seen := map[*ssa.Function]bool{}
	var out []*ssa.Function
	var add func(f *ssa.Function)
	add = func(f *ssa.Function) {
		if f == nil || seen[f] {
			return
		}
		seen[f] = true
		out = append(out, f)
		for _, a := range f.AnonFuncs {
			add(a)
		}
	}
	for _, m := range pkg.Members {
		switch x := m.(type) {
		case *ssa.Function:
			add(x)
		case *ssa.Type:
			for _, T := range []interface{}{x.Type(), nil} {
				_ = T
			}
			ms := pkg.Prog.MethodSets.MethodSet(x.Type())
			for i := 0; i < ms.Len(); i++ {
				add(pkg.Prog.MethodValue(ms.At(i)))
			}
			pms := pkg.Prog.MethodSets.MethodSet(ptrTo(x.Type()))
			for i := 0; i < pms.Len(); i++ {
				add(pkg.Prog.MethodValue(pms.At(i)))
			}
		}
	}
	sort.Slice(out, func(i, j int) bool { return out[i].String() < out[j].String() })
	return out
}

// PurityScan emits structural obligations for property C19.
func (w *World) PurityScan(pkgs []string, listed []string) {
	mk := func(name, text string, ok bool, pos string) {
		o := &Obligation{Name: name, Func: "purity-scan", Kind: "purity", Text: text, Goal: BoolConst(ok), Pos: pos, Hints: &Hints{Reveal: map[string]bool{}}}
		w.Obls = append(w.Obls, o)
	}
	// (1) package-level variables of the module are written only during initialisation
	var modPkgs []*ssa.Package
	for path, p := range w.Pkgs {
		if strings.HasPrefix(path, modPath) {
			modPkgs = append(modPkgs, p)
		}
	}
	sort.Slice(modPkgs, func(i, j int) bool { return modPkgs[i].Pkg.Path() < modPkgs[j].Pkg.Path() })
	watched := map[string]bool{}
	for _, p := range pkgs {
		watched[modPath+"/"+p] = true
	}
	for _, p := range modPkgs {
		var bad []string
		nStores := 0
		for _, fn := range allFuncs(p) {
			if fn.Blocks == nil {
				continue
			}
			init := isInitFunc(fn, w)
			for _, b := range fn.Blocks {
				for _, in := range b.Instrs {
					var tgt ssa.Value
					switch i := in.(type) {
					case *ssa.Store:
						tgt = i.Addr
					case *ssa.MapUpdate:
						tgt = i.Map
					case *ssa.Call:
						if bi, ok := i.Call.Value.(*ssa.Builtin); ok && (bi.Name() == "copy" || bi.Name() == "append") {
							tgt = i.Call.Args[0]
						}
					}
					if tgt == nil {
						continue
					}
					if _, local := tgt.(*ssa.Alloc); local {
						if _, isStore := in.(*ssa.Store); isStore {
							nStores++
							continue // assignment to a local variable
						}
					}
					nStores++
					g := rootGlobal(tgt, 0)
					if g == nil || g.Name() == "init$guard" {
						continue
					}
					if g.Pkg == nil || !watched[g.Pkg.Pkg.Path()] {
						continue
					}
					if !init {
						bad = append(bad, fmt.Sprintf("%s writes %s.%s at %s", fn.String(), g.Pkg.Pkg.Name(), g.Name(), w.Fset.Position(in.Pos())))
					}
				}
			}
		}
		rel := strings.TrimPrefix(p.Pkg.Path(), modPath+"/")
		mk("purity-scan/"+rel+"/tables-written-only-by-init",
			fmt.Sprintf("no function of package %s outside initialisation stores to a package-level variable of %v (%d store sites scanned)%s", rel, pkgs, nStores, violText(bad)),
			len(bad) == 0, p.Pkg.Path())
	}
	// (2) listed functions: transitive reads of globals / calls / concurrency constructs
	for _, name := range listed {
		k := strings.Index(name, ".")
		fn := w.findFunc(modPath+"/"+name[:k], name[k+1:])
		if fn == nil {
			mk("purity-scan/"+name+"/exists", "listed function exists", false, "")
			continue
		}
		var bad []string
		reads := map[string]bool{}
		seen := map[*ssa.Function]bool{}
		var walk func(f *ssa.Function)
		walk = func(f *ssa.Function) {
			if f == nil || seen[f] {
				return
			}
			seen[f] = true
			if f.Blocks == nil {
				return
			}
			for _, b := range f.Blocks {
				for _, in := range b.Instrs {
					switch i := in.(type) {
					case *ssa.Go, *ssa.Select, *ssa.Send, *ssa.MakeChan:
						bad = append(bad, fmt.Sprintf("%s uses %T", f, in))
					case *ssa.Range:
						bad = append(bad, fmt.Sprintf("%s ranges over a map/string iterator (iteration order)", f))
					case *ssa.UnOp:
						if i.Op == token.ARROW {
							bad = append(bad, fmt.Sprintf("%s receives from a channel", f))
						}
						if i.Op == token.MUL {
							if g := rootGlobal(i.X, 0); g != nil && g.Name() != "init$guard" {
								reads[g.Pkg.Pkg.Name()+"."+g.Name()] = true
							}
						}
					case *ssa.Call:
						if i.Call.IsInvoke() {
							bad = append(bad, fmt.Sprintf("%s calls an interface method %s", f, i.Call.Method.Name()))
							continue
						}
						callee := i.Call.StaticCallee()
						if callee == nil {
							if _, ok := i.Call.Value.(*ssa.Builtin); ok {
								continue
							}
							if mc, ok := i.Call.Value.(*ssa.MakeClosure); ok {
								walk(mc.Fn.(*ssa.Function))
								continue
							}
							// call through a local closure variable
							continue
						}
						path := ""
						if callee.Pkg != nil {
							path = callee.Pkg.Pkg.Path()
						}
						switch {
						case strings.HasPrefix(path, modPath):
							walk(callee)
						case path == "fmt" && callee.Name() == "Sprintf":
							// formatting of a panic message / PathStr: deterministic for the integer arguments used
						case path == "math/bits" || path == "bytes" || path == "github.com/openacid/must" || strings.HasPrefix(path, "github.com/openacid/must/"):
							// pure library functions (assumed contracts) / debug-build assertions
						case path == "" && (callee.Name() == "ssa:deferstack" || strings.HasPrefix(callee.Name(), "ssa:")):
						default:
							bad = append(bad, fmt.Sprintf("%s calls %s", f, callee))
						}
					case *ssa.MakeClosure:
						walk(i.Fn.(*ssa.Function))
					}
				}
			}
		}
		walk(fn)
		// every global read must be an init-time table (has a global invariant or is written only by init: checked in (1))
		var rl []string
		for r := range reads {
			rl = append(rl, r)
		}
		sort.Strings(rl)
		mk("purity-scan/"+name+"/deterministic",
			fmt.Sprintf("%s (with its %d module callees) uses no goroutine/channel/map iteration/interface call/impure library call; package variables read: %v (all written only during initialisation, see tables-written-only-by-init)%s", name, len(seen)-1, rl, violText(bad)),
			len(bad) == 0, w.Fset.Position(fn.Pos()).String())
	}
}

func violText(bad []string) string {
	if len(bad) == 0 {
		return ""
	}
	if len(bad) > 6 {
		bad = append(bad[:6], "...")
	}
	return " VIOLATED: " + strings.Join(bad, "; ")
}

func ptrTo(t types.Type) types.Type { return types.NewPointer(t) }

func pointerLike(t types.Type) bool {
	switch t.Underlying().(type) {
	case *types.Pointer, *types.Slice, *types.Map, *types.Chan, *types.Signature, *types.Interface:
		return true
	}
	return false
}
