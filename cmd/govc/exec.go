package main

// Symbolic executor over go/ssa (NaiveForm): generates proof obligations.

import (
	"fmt"
	"go/token"
	"go/types"
	"math/big"
	"sort"
	"strings"

	"golang.org/x/tools/go/ssa"
)

type vcErr struct{ msg string }

func vfail(f string, a ...interface{}) { panic(vcErr{fmt.Sprintf(f, a...)}) }

type Split struct {
	T      *Term
	Lo, Hi int64
}

type Hints struct {
	Reveal   map[string]bool
	Splits   []Split
	NoUnfold bool
	Insts    []*Term
	Timeout  int
	Fuel     int
	InstDepth int
	TrigDepth int
	RegionCtx bool
	NoGoalClosure bool
}

func (h *Hints) clone() *Hints {
	n := &Hints{Reveal: map[string]bool{}, NoUnfold: h.NoUnfold, Timeout: h.Timeout, Fuel: h.Fuel, InstDepth: h.InstDepth, TrigDepth: h.TrigDepth, RegionCtx: h.RegionCtx}
	for k := range h.Reveal {
		n.Reveal[k] = true
	}
	n.Splits = append(n.Splits, h.Splits...)
	n.Insts = append(n.Insts, h.Insts...)
	return n
}

type Obligation struct {
	Name   string // pkg.Func/kind#n
	Path   string
	Func   string
	Kind   string
	Pos    string
	Text   string // clause text or description
	Hyps   []*Term
	Goal   *Term
	Hints  *Hints
	Model  []NamedTerm
	Cover  bool // a reachability cover: expected SAT
	Res    *SolveResult
	Lemma  bool
	KeepQuery bool
}

type NamedTerm struct {
	Name string
	T    *Term
}

type Exec struct {
	adhocLoops map[*Loop]*LoopSpec // loops of inlined functions without contract
	W        *World
	top      *FuncInfo
	entry    *State // state at entry of the top function (after assuming requires)
	alloc0   *Term
	hints    *Hints
	model    []NamedTerm
	counters map[string]int
	paths    int
	assigns  []assignItem
	retCount int
	coverRet map[token.Pos]bool
	bounded  bool
	invPos   token.Pos
	invLoop  *Loop
}

type assignItem struct {
	kind  string // region field global all ghost
	key   string // ghost: heap key
	reg   *Term  // region / object ref / ghost map key
	named *types.Named
	field int
	g     *ssa.Global
	text  string
}

type frame struct {
	fi     *FuncInfo
	ret    func(st *State, results []Value)
	depth  int
	parent *frame // the calling frame of an inlined callee (recursion guard)
	// loops currently being executed (header -> true) to detect back edges only for active ones
}

// onInlineStack: fn is already being executed on this chain of inlined frames
func (x *Exec) onInlineStack(fr *frame, fn *ssa.Function) bool {
	for f := fr; f != nil; f = f.parent {
		if f.fi != nil && f.fi.Fn == fn {
			return true
		}
	}
	return false
}

func (x *Exec) pos(p token.Pos) string {
	if !p.IsValid() {
		return ""
	}
	ps := x.W.Fset.Position(p)
	f := ps.Filename
	if k := strings.Index(f, "/repo/"); k >= 0 {
		f = f[k+6:]
	}
	return fmt.Sprintf("%s:%d", f, ps.Line)
}

func (x *Exec) oblige(st *State, kind string, ord string, text string, p token.Pos, goal *Term) {
	if goal == True {
		// still count it: trivially discharged by the simplifier
	}
	o := &Obligation{
		Name:  fmt.Sprintf("%s/%s%s", x.top.Key, kind, ord),
		Path:  strings.Join(st.path, ""),
		Func:  x.top.Key,
		Kind:  kind,
		Pos:   x.pos(p),
		Text:  text,
		Hyps:  append([]*Term(nil), st.hyps...),
		Goal:  goal,
		Hints: x.hints,
		Model: x.model,
	}
	x.W.Obls = append(x.W.Obls, o)
}

// ordinal of an instruction among instructions of the function (stable for unchanged code)
func instrOrd(in ssa.Instruction) string {
	b := in.Block()
	n := 0
	for _, bb := range b.Parent().Blocks {
		for _, i := range bb.Instrs {
			if i == in {
				return fmt.Sprintf("@%s.i%d", shortFn(b.Parent()), n)
			}
			n++
		}
	}
	return ""
}

func shortFn(fn *ssa.Function) string {
	return strings.ReplaceAll(fn.Name(), "$", "_")
}

// ---------- fresh values ----------

func maxLenFor(e *STy) int64 {
	sz := int64(1)
	switch e.K {
	case TInt:
		sz = int64(e.W / 8)
	case TSlice:
		sz = 24
		if e.IsStr {
			sz = 16
		}
	case TPtr:
		sz = 8
	case TIface:
		sz = 16
	}
	return (int64(1) << 48) / sz
}

// freshValue creates a symbolic value of type ty; facts are well-formedness assumptions.
func (x *Exec) freshValue(ty *STy, hint string, st *State) (Value, []*Term) {
	switch ty.K {
	case TInt, TBool, TIface:
		return VScalar{FreshVar(hint, ty.scalarSort()), ty}, nil
	case TPtr:
		r := FreshVar(hint, RegSort)
		return PObj{r, ty}, []*Term{BVCmp("bvult", r, st.alloc)}
	case TSlice:
		v := VSlice{Reg: FreshVar(hint+".reg", RegSort), Off: FreshVar(hint+".off", IdxSort), Len: FreshVar(hint+".len", IdxSort), Ty: ty}
		z := BVInt(0, 64)
		facts := []*Term{
			BVCmp("bvult", v.Reg, st.alloc),
			BVCmp("bvsle", z, v.Len),
			BVCmp("bvsle", z, v.Off),
			BVCmp("bvsle", v.Off, BVInt(int64(1)<<48, 64)),
		}
		if ty.IsStr {
			v.Cap = v.Len
			facts = append(facts, BVCmp("bvsle", v.Len, BVInt(int64(1)<<48, 64)))
		} else {
			v.Cap = FreshVar(hint+".cap", IdxSort)
			facts = append(facts, BVCmp("bvsle", v.Len, v.Cap), BVCmp("bvsle", v.Cap, BVInt(maxLenFor(ty.Elem), 64)))
		}
		return v, facts
	case TStruct:
		s := ty.Named.Underlying().(*types.Struct)
		sv := VStruct{Ty: ty}
		var facts []*Term
		for i := 0; i < s.NumFields(); i++ {
			fv, ff := x.freshValue(tyFromGo(s.Field(i).Type()), hint+"."+s.Field(i).Name(), st)
			sv.Fs = append(sv.Fs, fv)
			facts = append(facts, ff...)
		}
		return sv, facts
	case TArray:
		if s := ty.Elem.scalarSort(); s != nil {
			return VArr{FreshVar(hint, ArrSort(IdxSort, s)), ty}, nil
		}
	}
	return VOpaque{ty, hint}, nil
}

func zeroValue(ty *STy) Value {
	switch ty.K {
	case TInt:
		return VScalar{BVInt(0, ty.W), ty}
	case TBool:
		return VScalar{False, ty}
	case TIface:
		return VScalar{BVInt(0, 32), ty}
	case TPtr:
		return PObj{BVInt(0, 32), ty}
	case TSlice:
		z := BVInt(0, 64)
		return VSlice{Reg: BVInt(0, 32), Off: z, Len: z, Cap: z, Ty: ty}
	case TStruct:
		s := ty.Named.Underlying().(*types.Struct)
		sv := VStruct{Ty: ty}
		for i := 0; i < s.NumFields(); i++ {
			sv.Fs = append(sv.Fs, zeroValue(tyFromGo(s.Field(i).Type())))
		}
		return sv
	case TArray:
		if s := ty.Elem.scalarSort(); s != nil {
			var z *Term
			if s.IsBool() {
				z = False
			} else {
				z = BVInt(0, s.W)
			}
			return VArr{ConstArr(ArrSort(IdxSort, s), z), ty}
		}
	}
	return VOpaque{ty, "zero"}
}

func zeroElemArray(e *STy, comp string) *Term {
	var s *Sort
	switch comp {
	case "reg":
		s = RegSort
	case "off", "len", "cap":
		s = IdxSort
	default:
		s = e.scalarSort()
	}
	var z *Term
	if s.IsBool() {
		z = False
	} else {
		z = BVInt(0, s.W)
	}
	return ConstArr(ArrSort(IdxSort, s), z)
}

// allocRegion reserves a fresh region id and zero-initialises the element heaps of e in it.
func (x *Exec) allocRegion(st *State, e *STy) *Term {
	reg := st.alloc
	st.alloc = BVBin("bvadd", st.alloc, BVInt(1, 32))
	if e != nil {
		x.zeroRegion(st, e, reg)
	}
	return reg
}

func (x *Exec) zeroRegion(st *State, e *STy, reg *Term) {
	if e.K == TSlice {
		comps := []string{"reg", "off", "len"}
		if !e.IsStr {
			comps = append(comps, "cap")
		}
		for _, c := range comps {
			var s *Sort = IdxSort
			if c == "reg" {
				s = RegSort
			}
			key := heapKey(e, c)
			st.heaps[key] = Store(st.heap(key, s), reg, zeroElemArray(e, c))
		}
		return
	}
	if s := e.scalarSort(); s != nil {
		key := heapKey(e, "")
		st.heaps[key] = Store(st.heap(key, s), reg, zeroElemArray(e, ""))
		return
	}
	vfail("allocation of region with unsupported element type %s", e)
}

// ---------- operand evaluation ----------

func (x *Exec) val(st *State, v ssa.Value) Value {
	switch c := v.(type) {
	case *ssa.Const:
		ty := tyFromGo(c.Type())
		if c.Value == nil {
			if _, isPtr := c.Type().Underlying().(*types.Pointer); isPtr && ty.K == TOpaque {
				// nil of a raw pointer type (only compared against pointers made from uintptr)
				return VScalar{BVInt(0, 64), intTy(64, false)}
			}
			return zeroValue(ty)
		}
		switch ty.K {
		case TInt:
			return VScalar{constTerm(c, ty), ty}
		case TBool:
			return VScalar{BoolConst(c.Value.String() == "true"), ty}
		case TSlice:
			if ty.IsStr {
				return x.stringConst(st, c)
			}
		}
		return VOpaque{ty, "const " + c.String()}
	case *ssa.Global:
		return PGlobal{c}
	case *ssa.Function:
		return VClosure{Fn: c}
	case *ssa.Builtin:
		return VOpaque{nil, "builtin " + c.Name()}
	}
	r, ok := st.regs[v]
	if !ok {
		vfail("value %s (%T) not available", v.Name(), v)
	}
	return r
}

var strConsts = map[string]VSlice{}

// string constants: content is known; modelled as a region in the byte heap with asserted bytes.
func (x *Exec) stringConst(st *State, c *ssa.Const) Value {
	s := constantStringVal(c)
	n := int64(len(s))
	id := FreshName("strconst")
	v := VSlice{Reg: Var(id+".reg", RegSort), Off: BVInt(0, 64), Len: BVInt(n, 64), Cap: BVInt(n, 64), Ty: tyString}
	st.assume(BVCmp("bvult", v.Reg, x.alloc0))
	if n <= 64 {
		h := x.entryHeap(heapKey(tyU8, ""), BV(8))
		arr := Select(h, Mark(v.Reg, "reg"))
		for i := int64(0); i < n; i++ {
			st.assume(Eq(Select(arr, BVInt(i, 64)), BVInt(int64(s[i]), 8)))
		}
	}
	return v
}

func (x *Exec) entryHeap(key string, elem *Sort) *Term {
	return initialHeapVar(key, elem, false)
}

func asScalar(v Value) VScalar {
	switch s := v.(type) {
	case VScalar:
		return s
	case PObj:
		return VScalar{s.Ref, s.Ty}
	}
	vfail("expected scalar, got %T", v)
	return VScalar{}
}

func asSlice(v Value) VSlice {
	s, ok := v.(VSlice)
	if !ok {
		vfail("expected slice/string, got %T", v)
	}
	return s
}

func idx64(v Value) *Term {
	s := asScalar(v)
	if s.Ty.K != TInt {
		vfail("index not integer")
	}
	if s.Ty.Signed {
		return SExt(s.T, 64)
	}
	return ZExt(s.T, 64)
}

// ---------- running ----------

const maxPaths = 20000

func (x *Exec) step(st *State, in ssa.Instruction, fr *frame) {
	switch i := in.(type) {
	case *ssa.Alloc:
		x.doAlloc(st, i)
	case *ssa.Store:
		x.store(st, x.val(st, i.Addr), x.val(st, i.Val), i)
	case *ssa.UnOp:
		st.regs[i] = x.unop(st, i)
	case *ssa.BinOp:
		st.regs[i] = x.binop(st, i)
	case *ssa.Convert:
		st.regs[i] = x.convert(st, i)
	case *ssa.ChangeType:
		st.regs[i] = retype(x.val(st, i.X), tyFromGo(i.Type()))
	case *ssa.IndexAddr:
		st.regs[i] = x.indexAddr(st, i)
	case *ssa.Index:
		st.regs[i] = x.index(st, i)
	case *ssa.Lookup:
		st.regs[i] = x.lookupStr(st, i)
	case *ssa.FieldAddr:
		st.regs[i] = x.fieldAddr(st, i)
	case *ssa.Field:
		sv, ok := x.val(st, i.X).(VStruct)
		if !ok {
			vfail("Field of non-struct value")
		}
		st.regs[i] = sv.Fs[i.Field]
	case *ssa.Slice:
		st.regs[i] = x.sliceOp(st, i)
	case *ssa.MakeSlice:
		st.regs[i] = x.makeSlice(st, i)
	case *ssa.Call:
		vfail("internal: call must be handled by runFrom")
	case *ssa.Extract:
		t, ok := x.val(st, i.Tuple).(VTuple)
		if !ok {
			vfail("extract from non-tuple")
		}
		st.regs[i] = t.Vs[i.Index]
	case *ssa.MakeClosure:
		var bs []Value
		for _, b := range i.Bindings {
			bs = append(bs, x.val(st, b))
		}
		st.regs[i] = VClosure{Fn: i.Fn.(*ssa.Function), Binds: bs}
	case *ssa.MakeMap:
		st.regs[i] = &VMap{}
	case *ssa.MapUpdate:
		m, ok := x.val(st, i.Map).(*VMap)
		if !ok {
			vfail("map update on a map that was not created in this function (maps are outside the subset)")
		}
		m.Keys = append(m.Keys, x.val(st, i.Key))
		m.Vals = append(m.Vals, x.val(st, i.Value))
	case *ssa.MakeInterface:
		st.regs[i] = x.makeInterface(st, i)
	case *ssa.ChangeInterface:
		st.regs[i] = x.val(st, i.X)
	case *ssa.TypeAssert:
		st.regs[i] = x.typeAssert(st, i)
	case *ssa.Range:
		// iteration over a string (by runes) or a map: the iterator is abstracted - Next yields
		// unconstrained elements (a sound over-approximation: nothing is assumed about the order,
		// the decoding of runes or the number of iterations)
		st.regs[i] = VRangeIter{X: x.val(st, i.X), T: i.X.Type()}
	case *ssa.Next:
		it, ok := x.val(st, i.Iter).(VRangeIter)
		if !ok {
			vfail("next on an unknown iterator")
		}
		okT := FreshVar("next.ok", BoolSort)
		tup := i.Type().(*types.Tuple)
		var kv, vv Value = VOpaque{nil, "next.key"}, VOpaque{nil, "next.val"}
		if i.IsString {
			k := FreshVar("next.k", IdxSort)
			r := FreshVar("next.rune", BV(32))
			if sl, isSl := it.X.(VSlice); isSl {
				st.assume(Implies(okT, And(BVCmp("bvsle", BVInt(0, 64), k), BVCmp("bvslt", k, sl.Len))))
			}
			st.assume(And(BVCmp("bvsle", BVInt(0, 32), r), BVCmp("bvsle", r, BVInt(0x10ffff, 32))))
			kv, vv = VScalar{k, tyInt}, VScalar{r, intTy(32, true)}
		} else {
			for j, dst := range []*Value{&kv, &vv} {
				ty := tyFromGo(tup.At(j + 1).Type())
				if ty != nil {
					fv, facts := x.freshValue(ty, "next.elem", st)
					for _, f := range facts {
						st.assume(f)
					}
					*dst = fv
				}
			}
		}
		x.W.Assumes["range over a string / map (only in changed code): the iterator is abstracted, each step yields unconstrained elements"] = true
		st.regs[i] = VTuple{[]Value{VScalar{okT, tyBool}, kv, vv}}
	case *ssa.RunDefers, *ssa.DebugRef:
	case *ssa.Defer, *ssa.Go, *ssa.Select, *ssa.Send, *ssa.MakeChan:
		vfail("outside subset: %T", in)
	default:
		vfail("unsupported instruction %T: %s", in, in)
	}
}

func retype(v Value, ty *STy) Value {
	switch s := v.(type) {
	case VScalar:
		return VScalar{s.T, ty}
	case VSlice:
		n := s
		n.Ty = ty
		return n
	}
	return v
}

func (x *Exec) doAlloc(st *State, a *ssa.Alloc) {
	et := a.Type().(*types.Pointer).Elem()
	ty := tyFromGo(et)
	switch ty.K {
	case TArray:
		// arrays live in heap regions so that they can be sliced
		reg := x.allocRegion(st, ty.Elem)
		st.regs[a] = PArr{Reg: reg, Off: BVInt(0, 64), Ty: ty}
		return
	case TStruct:
		if a.Heap {
			ref := x.allocObject(st, ty.Named)
			st.regs[a] = PObj{ref, &STy{K: TPtr, Named: ty.Named}}
			return
		}
	}
	st.cells[a] = zeroValue(ty)
	st.regs[a] = PCell{a}
}

func (x *Exec) allocObject(st *State, n *types.Named) *Term {
	ref := st.alloc
	st.alloc = BVBin("bvadd", st.alloc, BVInt(1, 32))
	s := n.Underlying().(*types.Struct)
	for i := 0; i < s.NumFields(); i++ {
		ft := tyFromGo(s.Field(i).Type())
		if ft.K == TArray {
			areg := x.allocRegion(st, ft.Elem)
			key := fieldKey(n, i, "areg")
			st.heaps[key] = Store(st.fheap(key, RegSort), ref, areg)
			continue
		}
		if ft.K == TOpaque || ft.K == TStruct {
			continue
		}
		storeField(st, n, i, ref, zeroValue(ft))
	}
	return ref
}

// ---------- loads and stores ----------

func (x *Exec) load(st *State, addr Value, in ssa.Instruction) Value {
	switch p := addr.(type) {
	case PCell:
		v, ok := st.cells[p.A]
		if !ok {
			vfail("load from unset cell %s", p.A.Comment)
		}
		return v
	case PElem:
		return x.wfLoaded(st, loadElem(st, p.Ty, p.Reg, p.Idx))
	case PGlobal:
		if p.G.Name() == "init$guard" {
			// the package initialiser is verified for its one real execution (guard still false)
			return VScalar{False, tyBool}
		}
		return x.W.globalValue(st, p.G)
	case PGlobalElem:
		g := x.W.globalValue(st, p.G)
		switch a := g.(type) {
		case VArr:
			return VScalar{Select(a.Arr, Mark(p.Idx, "s64")), a.Ty.Elem}
		}
		vfail("load of element of global %s of unsupported type", p.G.Name())
	case PField:
		x.nilCheck(st, p.Obj, in)
		return x.wfLoaded(st, loadField(st, p.Obj.Ty.Named, p.Field, p.Obj.Ref))
	case PObj:
		// load of whole struct
		x.nilCheck(st, p, in)
		s := p.Ty.Named.Underlying().(*types.Struct)
		sv := VStruct{Ty: &STy{K: TStruct, Named: p.Ty.Named}}
		for i := 0; i < s.NumFields(); i++ {
			sv.Fs = append(sv.Fs, loadField(st, p.Ty.Named, i, p.Ref))
		}
		return sv
	case PCellField:
		sv, ok := st.cells[p.A].(VStruct)
		if !ok {
			vfail("load of a field of a non-struct cell")
		}
		return sv.Fs[p.Field]
	case PStrHdr:
		// unsafe reinterpretation of a 2-word string header as a 3-word slice header: same bytes,
		// same length; the capacity is the word that happens to follow the string header in
		// memory - UNSPECIFIED. The obligation below demands a well-formed slice (len <= cap):
		// it cannot be discharged for a bare string header.
		x.W.Assumes["unsafe: a string header read as []byte shares the string's bytes and length; its capacity word is unspecified (whatever follows the string in memory)"] = true
		c := FreshVar("unsafecap", IdxSort)
		x.oblige(st, "unsafe", instrOrd(in), "a header reinterpreted as []byte is a well-formed slice: 0 <= len <= cap", in.Pos(), And(BVCmp("bvsle", BVInt(0, 64), p.S.Len), BVCmp("bvsle", p.S.Len, c)))
		st.assume(BVCmp("bvsle", p.S.Len, c))
		st.assume(BVCmp("bvsle", c, BVInt(int64(1)<<48, 64)))
		return VSlice{Reg: p.S.Reg, Off: p.S.Off, Len: p.S.Len, Cap: c, Ty: &STy{K: TSlice, Elem: tyU8}}
	case PSliceHdrObj:
		// unsafe reinterpretation of a struct {string; int} as a slice header: pointer and length
		// from the string, capacity from the integer (same memory layout: three words)
		x.W.Assumes["unsafe: a struct {string; int} read as []byte is the slice header (string's bytes, string's length, the int as capacity): identical three-word layout"] = true
		x.nilCheck(st, p.Obj, in)
		sv, ok1 := loadField(st, p.Obj.Ty.Named, 0, p.Obj.Ref).(VSlice)
		cv, ok2 := loadField(st, p.Obj.Ty.Named, 1, p.Obj.Ref).(VScalar)
		if !ok1 || !ok2 {
			vfail("unsafe slice-header view of an unexpected struct")
		}
		x.oblige(st, "unsafe", instrOrd(in), "a header reinterpreted as []byte is a well-formed slice: 0 <= len <= cap", in.Pos(), And(BVCmp("bvsle", BVInt(0, 64), sv.Len), BVCmp("bvsle", sv.Len, cv.T)))
		st.assume(BVCmp("bvsle", sv.Len, cv.T))
		return VSlice{Reg: sv.Reg, Off: sv.Off, Len: sv.Len, Cap: cv.T, Ty: &STy{K: TSlice, Elem: tyU8}}
	}
	vfail("load through unsupported pointer %T", addr)
	return nil
}

// wfLoaded assumes the well-formedness of a slice/pointer value read from the heap: every
// stored reference was allocated when it was stored and the allocation counter only grows.
func (x *Exec) wfLoaded(st *State, v Value) Value {
	z := BVInt(0, 64)
	switch s := v.(type) {
	case VSlice:
		if s.Reg.IsConst() {
			return v
		}
		st.assume(BVCmp("bvult", s.Reg, st.alloc))
		st.assume(BVCmp("bvsle", z, s.Len))
		st.assume(BVCmp("bvsle", z, s.Off))
		st.assume(BVCmp("bvsle", s.Off, BVInt(int64(1)<<48, 64)))
		if s.Ty.IsStr {
			st.assume(BVCmp("bvsle", s.Len, BVInt(int64(1)<<48, 64)))
		} else {
			st.assume(BVCmp("bvsle", s.Len, s.Cap))
			st.assume(BVCmp("bvsle", s.Cap, BVInt(maxLenFor(s.Ty.Elem), 64)))
		}
	case PObj:
		if !s.Ref.IsConst() {
			st.assume(BVCmp("bvult", s.Ref, st.alloc))
		}
	case PArr:
		if !s.Reg.IsConst() {
			st.assume(BVCmp("bvult", s.Reg, st.alloc))
		}
	}
	return v
}

func (x *Exec) nilCheck(st *State, p PObj, in ssa.Instruction) {
	if p.Ref.IsConst() && p.Ref.Val.Sign() != 0 {
		return
	}
	var pos token.Pos
	ord := ""
	if in != nil {
		pos = in.Pos()
		ord = instrOrd(in)
	}
	x.oblige(st, "nilderef", ord, "pointer is non-nil", pos, Not(Eq(p.Ref, BVInt(0, 32))))
}

func (x *Exec) store(st *State, addr Value, v Value, in ssa.Instruction) {
	switch p := addr.(type) {
	case PCell:
		st.cells[p.A] = v
	case PCellField:
		sv, ok := st.cells[p.A].(VStruct)
		if !ok {
			vfail("store to a field of a non-struct cell")
		}
		nf := append([]Value(nil), sv.Fs...)
		nf[p.Field] = v
		st.cells[p.A] = VStruct{Ty: sv.Ty, Fs: nf}
	case PElem:
		x.frameCheckRegion(st, p.Reg, in)
		storeElem(st, p.Ty, p.Reg, p.Idx, v)
	case PGlobal:
		x.frameCheckGlobal(st, p.G, in)
		st.globals[p.G] = v
		if p.G.Name() == "init$guard" {
			return
		}
	case PGlobalElem:
		x.frameCheckGlobal(st, p.G, in)
		g := x.W.globalValue(st, p.G)
		a, ok := g.(VArr)
		if !ok {
			vfail("store to element of unsupported global")
		}
		st.globals[p.G] = VArr{Store(a.Arr, p.Idx, asScalar(v).T), a.Ty}
	case PField:
		x.nilCheck(st, p.Obj, in)
		x.frameCheckField(st, p, in)
		storeField(st, p.Obj.Ty.Named, p.Field, p.Obj.Ref, v)
	case PObj:
		sv, ok := v.(VStruct)
		if !ok {
			vfail("store of non-struct to object")
		}
		s := p.Ty.Named.Underlying().(*types.Struct)
		for i := 0; i < s.NumFields(); i++ {
			ft := tyFromGo(s.Field(i).Type())
			if ft.K == TArray {
				// the array field lives in its own region: overwrite the whole region content
				if av, ok := sv.Fs[i].(VArr); ok && ft.Elem.scalarSort() != nil {
					pa := loadField(st, p.Ty.Named, i, p.Ref).(PArr)
					x.frameCheckRegion(st, pa.Reg, in)
					key := heapKey(ft.Elem, "")
					st.heaps[key] = Store(st.heap(key, ft.Elem.scalarSort()), pa.Reg, av.Arr)
					continue
				}
				vfail("store of struct value with unsupported array field %s", s.Field(i).Name())
			}
			if ft.K == TOpaque {
				continue
			}
			x.frameCheckField(st, PField{p, i}, in)
			storeField(st, p.Ty.Named, i, p.Ref, sv.Fs[i])
		}
	default:
		vfail("store through unsupported pointer %T", addr)
	}
}

func (x *Exec) frameCheckRegion(st *State, reg *Term, in ssa.Instruction) {
	ok := []*Term{BVCmp("bvuge", reg, x.alloc0)}
	for _, a := range x.assigns {
		if a.kind == "region" {
			ok = append(ok, Eq(reg, a.reg))
		}
		if a.kind == "all" {
			return
		}
	}
	g := Or(ok...)
	var pos token.Pos
	ord := ""
	if in != nil {
		pos, ord = in.Pos(), instrOrd(in)
	}
	x.oblige(st, "frame", ord, "store targets memory allocated by this call or listed in assigns", pos, g)
}

func (x *Exec) frameCheckGhost(st *State, key string, k *Term, what string, in ssa.Instruction) {
	var ok []*Term
	for _, a := range x.assigns {
		if a.kind == "ghost" && a.key == key {
			ok = append(ok, Eq(k, a.reg))
		}
		if a.kind == "all" {
			return
		}
	}
	x.oblige(st, "frame", instrOrd(in), "ghost state "+what+" changed by the callee is listed in assigns", in.Pos(), Or(ok...))
}

func (x *Exec) frameCheckGlobal(st *State, g *ssa.Global, in ssa.Instruction) {
	if g.Name() == "init$guard" {
		return
	}
	for _, a := range x.assigns {
		if a.kind == "global" && a.g == g || a.kind == "all" {
			return
		}
	}
	x.oblige(st, "frame", instrOrd(in), "store to package variable "+g.Name()+" not listed in assigns", in.Pos(), False)
}

func (x *Exec) frameCheckField(st *State, p PField, in ssa.Instruction) {
	ok := []*Term{BVCmp("bvuge", p.Obj.Ref, x.alloc0)}
	for _, a := range x.assigns {
		if a.kind == "field" && a.named == p.Obj.Ty.Named && a.field == p.Field {
			ok = append(ok, Eq(p.Obj.Ref, a.reg))
		}
		if a.kind == "all" {
			return
		}
	}
	var pos token.Pos
	ord := ""
	if in != nil {
		pos, ord = in.Pos(), instrOrd(in)
	}
	x.oblige(st, "frame", ord, "field store targets an object allocated by this call or listed in assigns", pos, Or(ok...))
}

// ---------- operators ----------

func (x *Exec) unop(st *State, i *ssa.UnOp) Value {
	v := x.val(st, i.X)
	switch i.Op {
	case token.MUL:
		return x.load(st, v, i)
	case token.SUB:
		s := asScalar(v)
		return VScalar{BVNeg(s.T), s.Ty}
	case token.XOR:
		s := asScalar(v)
		return VScalar{BVNot(s.T), s.Ty}
	case token.NOT:
		s := asScalar(v)
		return VScalar{Not(s.T), s.Ty}
	}
	vfail("unsupported unary op %s", i.Op)
	return nil
}

func (x *Exec) binop(st *State, i *ssa.BinOp) Value {
	a, b := x.val(st, i.X), x.val(st, i.Y)
	rty := tyFromGo(i.Type())
	// interfaces / pointers equality
	if sa, ok := a.(VScalar); ok && (sa.Ty.K == TIface || sa.Ty.K == TBool) || isPtrVal(a) {
		ta, tb := scalarTerm(a), scalarTerm(b)
		switch i.Op {
		case token.EQL:
			return VScalar{Eq(ta, tb), rty}
		case token.NEQ:
			return VScalar{Not(Eq(ta, tb)), rty}
		}
		if sa, ok := a.(VScalar); ok && sa.Ty.K == TBool {
			switch i.Op {
			case token.AND, token.LAND:
				return VScalar{And(ta, tb), rty}
			case token.OR, token.LOR:
				return VScalar{Or(ta, tb), rty}
			}
		}
		vfail("unsupported op %s on %T", i.Op, a)
	}
	if _, ok := a.(VSlice); ok {
		return x.stringBinop(st, i, asSlice(a), asSlice(b))
	}
	_, aop := a.(VOpaque)
	_, bop := b.(VOpaque)
	if aop || bop {
		if rty.K == TBool {
			// comparison of unmodelled (floating point) values: either outcome
			return VScalar{FreshVar("opaquecmp", BoolSort), rty}
		}
		return VOpaque{rty, "binop on opaque"}
	}
	sa, sb := asScalar(a), asScalar(b)
	if sa.Ty.K != TInt {
		return VOpaque{rty, "binop on unsupported type"}
	}
	w := sa.Ty.W
	signed := sa.Ty.Signed
	pick := func(sn, un string) string {
		if signed {
			return sn
		}
		return un
	}
	switch i.Op {
	case token.ADD:
		return VScalar{BVBin("bvadd", sa.T, sb.T), rty}
	case token.SUB:
		return VScalar{BVBin("bvsub", sa.T, sb.T), rty}
	case token.MUL:
		return VScalar{BVBin("bvmul", sa.T, sb.T), rty}
	case token.QUO, token.REM:
		x.oblige(st, "divzero", instrOrd(i), "divisor is non-zero", i.Pos(), Not(Eq(sb.T, BVInt(0, w))))
		if i.Op == token.QUO {
			return VScalar{BVBin(pick("bvsdiv", "bvudiv"), sa.T, sb.T), rty}
		}
		return VScalar{BVBin(pick("bvsrem", "bvurem"), sa.T, sb.T), rty}
	case token.AND:
		return VScalar{BVBin("bvand", sa.T, sb.T), rty}
	case token.OR:
		return VScalar{BVBin("bvor", sa.T, sb.T), rty}
	case token.XOR:
		return VScalar{BVBin("bvxor", sa.T, sb.T), rty}
	case token.AND_NOT:
		return VScalar{BVBin("bvand", sa.T, BVNot(sb.T)), rty}
	case token.SHL, token.SHR:
		if sb.Ty.Signed {
			x.oblige(st, "negshift", instrOrd(i), "shift count is non-negative", i.Pos(), BVCmp("bvsle", BVInt(0, sb.Ty.W), sb.T))
		}
		cnt := shiftCount(sb.T, sb.Ty.W, w)
		op := "bvshl"
		if i.Op == token.SHR {
			op = pick("bvashr", "bvlshr")
		}
		return VScalar{BVBin(op, sa.T, cnt), rty}
	case token.EQL:
		return VScalar{Eq(sa.T, sb.T), rty}
	case token.NEQ:
		return VScalar{Not(Eq(sa.T, sb.T)), rty}
	case token.LSS:
		return VScalar{BVCmp(pick("bvslt", "bvult"), sa.T, sb.T), rty}
	case token.LEQ:
		return VScalar{BVCmp(pick("bvsle", "bvule"), sa.T, sb.T), rty}
	case token.GTR:
		return VScalar{BVCmp(pick("bvsgt", "bvugt"), sa.T, sb.T), rty}
	case token.GEQ:
		return VScalar{BVCmp(pick("bvsge", "bvuge"), sa.T, sb.T), rty}
	}
	vfail("unsupported binary op %s", i.Op)
	return nil
}

func isPtrVal(v Value) bool {
	switch v.(type) {
	case PObj, VNilPtr:
		return true
	}
	return false
}

func (x *Exec) stringBinop(st *State, i *ssa.BinOp, a, b VSlice) Value {
	rty := tyFromGo(i.Type())
	// string comparison / concatenation are not modelled precisely
	switch i.Op {
	case token.EQL, token.NEQ, token.LSS, token.LEQ, token.GTR, token.GEQ:
		return VScalar{FreshVar("strcmp", BoolSort), rty}
	case token.ADD:
		v, facts := x.freshValue(tyString, "strcat", st)
		for _, f := range facts {
			st.assume(f)
		}
		return v
	}
	vfail("unsupported string op %s", i.Op)
	return nil
}

func (x *Exec) convert(st *State, i *ssa.Convert) Value {
	v := x.val(st, i.X)
	from := tyFromGo(i.X.Type())
	to := tyFromGo(i.Type())
	switch {
	case from.K == TInt && to.K == TInt:
		s := asScalar(v)
		var t *Term
		if to.W <= from.W {
			t = Extract(to.W-1, 0, s.T)
		} else if from.Signed {
			t = SExt(s.T, to.W)
		} else {
			t = ZExt(s.T, to.W)
		}
		return VScalar{t, to}
	case from.K == TSlice && to.K == TSlice && from.IsStr != to.IsStr && from.Elem.K == TInt && from.Elem.W == 8 && to.Elem.K == TInt && to.Elem.W == 8:
		// string(bytes) / []byte(string): fresh copy
		return x.copyBytes(st, asSlice(v), to)
	case to.K == TOpaque && !(from.K == TOpaque && isBytesSliceType(i.Type())):
		// conversions to unsafe.Pointer keep the underlying pointer
		return v
	case from.K == TOpaque:
		// unsafe.Pointer -> *[]byte : only the string-header view is modelled
		if pc, ok := v.(PCell); ok {
			if sv, ok := st.cells[pc.A].(VSlice); ok && sv.Ty.IsStr {
				return PStrHdr{sv}
			}
		}
		if po, ok := v.(PObj); ok && po.Ty != nil && po.Ty.Named != nil && isBytesSliceType(i.Type()) {
			if sd, ok := po.Ty.Named.Underlying().(*types.Struct); ok && sd.NumFields() == 2 {
				f0, f1 := tyFromGo(sd.Field(0).Type()), tyFromGo(sd.Field(1).Type())
				if f0.K == TSlice && f0.IsStr && f1.K == TInt && f1.W == 64 {
					return PSliceHdrObj{po}
				}
			}
		}
		if s, ok := v.(VScalar); ok && s.Ty.K == TInt {
			return s // a raw pointer made from a uintptr: only its nil-ness is observable
		}
		return VOpaque{to, "unsafe conversion"}
	}
	if _, ok := v.(VOpaque); ok {
		return VOpaque{to, "convert"}
	}
	if from.K == TInt && to.K == TOpaque || to.K == TOpaque {
		return VOpaque{to, "convert"}
	}
	// float conversions etc.
	return VOpaque{to, fmt.Sprintf("convert %s -> %s", i.X.Type(), i.Type())}
}

// isBytesSliceType: *[]byte
func isBytesSliceType(t types.Type) bool {
	p, ok := t.Underlying().(*types.Pointer)
	if !ok {
		return false
	}
	s, ok := p.Elem().Underlying().(*types.Slice)
	if !ok {
		return false
	}
	b, ok := s.Elem().Underlying().(*types.Basic)
	return ok && b.Kind() == types.Uint8
}

func (x *Exec) copyBytes(st *State, src VSlice, to *STy) Value {
	reg := st.alloc
	st.alloc = BVBin("bvadd", st.alloc, BVInt(1, 32))
	key := heapKey(tyU8, "")
	h := st.heap(key, BV(8))
	na := FreshVar("bytescopy", ArrSort(IdxSort, BV(8)))
	srcArr := Select(h, Mark(src.Reg, "reg"))
	k := BoundVar("k", IdxSort, "s64")
	st.assume(Forall([]*Term{k}, Implies(And(BVCmp("bvsle", BVInt(0, 64), k), BVCmp("bvslt", k, src.Len)),
		Eq(Select(na, Mark(k, "s64")), Select(srcArr, BVBin("bvadd", src.Off, Mark(k, "s64")))))))
	st.heaps[key] = Store(h, reg, na)
	return VSlice{Reg: reg, Off: BVInt(0, 64), Len: src.Len, Cap: src.Len, Ty: to}
}

// ---------- addressing ----------

func (x *Exec) boundsCheck(st *State, idx *Term, n *Term, in ssa.Instruction, what string) {
	g := And(BVCmp("bvsle", BVInt(0, 64), idx), BVCmp("bvslt", idx, n))
	x.oblige(st, "bounds", instrOrd(in), what, in.Pos(), g)
	// after the check succeeded the index is in range on this path
	st.assume(g)
}

func (x *Exec) indexAddr(st *State, i *ssa.IndexAddr) Value {
	base := x.val(st, i.X)
	idx := idx64(x.val(st, i.Index))
	switch b := base.(type) {
	case VSlice:
		x.boundsCheck(st, idx, b.Len, i, "index in range of slice")
		return PElem{Reg: b.Reg, Idx: BVBin("bvadd", b.Off, Mark(idx, "s64")), Ty: b.Ty.Elem}
	case PArr:
		x.boundsCheck(st, idx, BVInt(b.Ty.N, 64), i, "index in range of array")
		return PElem{Reg: b.Reg, Idx: BVBin("bvadd", b.Off, Mark(idx, "s64")), Ty: b.Ty.Elem}
	case PGlobal:
		ty := tyFromGo(b.G.Type().(*types.Pointer).Elem())
		if ty.K != TArray {
			vfail("IndexAddr on non-array global")
		}
		x.boundsCheck(st, idx, BVInt(ty.N, 64), i, "index in range of array "+b.G.Name())
		return PGlobalElem{b.G, idx}
	case PField:
		// array field of heap object
		pa, ok := x.load(st, b, i).(PArr)
		if !ok {
			vfail("IndexAddr on non-array field")
		}
		x.boundsCheck(st, idx, BVInt(pa.Ty.N, 64), i, "index in range of array field")
		return PElem{Reg: pa.Reg, Idx: BVBin("bvadd", pa.Off, Mark(idx, "s64")), Ty: pa.Ty.Elem}
	}
	vfail("IndexAddr on %T", base)
	return nil
}

func (x *Exec) index(st *State, i *ssa.Index) Value {
	base := x.val(st, i.X)
	idx := idx64(x.val(st, i.Index))
	switch b := base.(type) {
	case VArr:
		x.boundsCheck(st, idx, BVInt(b.Ty.N, 64), i, "index in range of array")
		return VScalar{Select(b.Arr, Mark(idx, "s64")), b.Ty.Elem}
	case VSlice: // string index
		x.boundsCheck(st, idx, b.Len, i, "index in range of string")
		return loadElem(st, b.Ty.Elem, b.Reg, BVBin("bvadd", b.Off, Mark(idx, "s64")))
	}
	vfail("Index on %T", base)
	return nil
}

func (x *Exec) lookupStr(st *State, i *ssa.Lookup) Value {
	base := x.val(st, i.X)
	b, ok := base.(VSlice)
	if !ok || !b.Ty.IsStr {
		vfail("Lookup on non-string (maps are outside the subset)")
	}
	idx := idx64(x.val(st, i.Index))
	x.boundsCheck(st, idx, b.Len, i, "index in range of string")
	return loadElem(st, tyU8, b.Reg, BVBin("bvadd", b.Off, Mark(idx, "s64")))
}

func (x *Exec) fieldAddr(st *State, i *ssa.FieldAddr) Value {
	base := x.val(st, i.X)
	switch b := base.(type) {
	case PObj:
		return PField{b, i.Field}
	case PCell:
		if _, ok := st.cells[b.A].(VStruct); ok {
			return PCellField{b.A, i.Field}
		}
		vfail("FieldAddr on local cell that does not hold a struct")
	}
	vfail("FieldAddr on %T", base)
	return nil
}

func (x *Exec) sliceOp(st *State, i *ssa.Slice) Value {
	base := x.val(st, i.X)
	var reg, off, ln, cp *Term
	var ty *STy
	switch b := base.(type) {
	case VSlice:
		reg, off, ln, cp, ty = b.Reg, b.Off, b.Len, b.Cap, b.Ty
	case PArr:
		n := BVInt(b.Ty.N, 64)
		reg, off, ln, cp = b.Reg, b.Off, n, n
		ty = &STy{K: TSlice, Elem: b.Ty.Elem}
	case PField:
		pa, ok := x.load(st, b, i).(PArr)
		if !ok {
			vfail("slice of non-array field")
		}
		n := BVInt(pa.Ty.N, 64)
		reg, off, ln, cp = pa.Reg, pa.Off, n, n
		ty = &STy{K: TSlice, Elem: pa.Ty.Elem}
	default:
		vfail("Slice on %T", base)
	}
	z := BVInt(0, 64)
	lo, hi, mx := z, ln, cp
	if i.Low != nil {
		lo = idx64(x.val(st, i.Low))
	}
	if i.High != nil {
		hi = idx64(x.val(st, i.High))
	}
	if i.Max != nil {
		mx = idx64(x.val(st, i.Max))
	}
	limit := cp
	if ty.IsStr {
		limit = ln
	}
	var g *Term
	if i.Max != nil {
		g = And(BVCmp("bvsle", z, lo), BVCmp("bvsle", lo, hi), BVCmp("bvsle", hi, mx), BVCmp("bvsle", mx, limit))
	} else {
		g = And(BVCmp("bvsle", z, lo), BVCmp("bvsle", lo, hi), BVCmp("bvsle", hi, limit))
	}
	x.oblige(st, "bounds", instrOrd(i), "slice bounds in range", i.Pos(), g)
	st.assume(g)
	r := VSlice{Reg: reg, Off: BVBin("bvadd", off, lo), Len: BVBin("bvsub", hi, lo), Cap: BVBin("bvsub", mx, lo), Ty: ty}
	if ty.IsStr {
		r.Cap = r.Len
	}
	return r
}

func (x *Exec) makeSlice(st *State, i *ssa.MakeSlice) Value {
	ty := tyFromGo(i.Type())
	ln := idx64(x.val(st, i.Len))
	cp := idx64(x.val(st, i.Cap))
	g := And(BVCmp("bvsle", BVInt(0, 64), ln), BVCmp("bvsle", ln, cp), BVCmp("bvsle", cp, BVInt(maxLenFor(ty.Elem), 64)))
	x.oblige(st, "makeslice", instrOrd(i), "make: 0 <= len <= cap <= maxAlloc/elemsize", i.Pos(), g)
	st.assume(g)
	reg := x.allocRegion(st, ty.Elem)
	return VSlice{Reg: reg, Off: BVInt(0, 64), Len: ln, Cap: cp, Ty: ty}
}

func (x *Exec) makeInterface(st *State, i *ssa.MakeInterface) Value {
	// the dynamic value is kept when it is a known program value; identity is a fresh id
	v := x.val(st, i.X)
	ty := tyFromGo(i.Type())
	if p, ok := v.(PObj); ok {
		// interface holding a pointer: identified with the pointer (non-nil iff pointer non-nil)
		return VIfaceObj{Obj: p, Ty: ty}
	}
	// any other boxed value: a fresh non-nil interface identity; the payload is remembered so
	// that assumed contracts of assertion helpers (must.Be.Equal ...) can look inside
	id := FreshVar("boxed", IfaceSort)
	st.assume(Not(Eq(id, BVInt(0, 32))))
	if st.boxed == nil {
		st.boxed = map[*Term]Value{}
	}
	st.boxed[id] = v
	return VScalar{id, &STy{K: TIface, GoT: i.Type()}}
}

// VMap: a map built entry by entry in an initialiser (only used for structural checks)
type VMap struct {
	Keys, Vals []Value
}

type VIfaceObj struct {
	Obj PObj
	Ty  *STy
}

// typeAssert: only assertions to a named interface type. The dynamic type of a caller-supplied
// interface value is unknown; "v implements T" is the uninterpreted predicate isT(v), which
// the contracts can mention (a spec function of that name must be declared).
func (x *Exec) typeAssert(st *State, i *ssa.TypeAssert) Value {
	v := x.val(st, i.X)
	named, _ := i.AssertedType.(*types.Named)
	if !types.IsInterface(i.AssertedType) {
		// assertion to a concrete type T: succeeds iff an uninterpreted predicate of the interface
		// value holds - isT(m) when the spec library declares it (then contracts can require it),
		// otherwise an anonymous one; the extracted value is unconstrained
		if s, isSc := v.(VScalar); isSc && s.Ty.K == TIface {
			var ok *Term
			tname := types.TypeString(i.AssertedType, func(p *types.Package) string { return p.Name() })
			if named != nil {
				if fn := x.W.SpecFns["is"+named.Obj().Name()]; fn != nil && fn.Body == nil && len(fn.Params) == 1 {
					ok = App(specFnSym("is"+named.Obj().Name()), BoolSort, s.T)
				}
			}
			if ok == nil {
				ok = App(specFnSym("dyntype."+sanitizeSym(tname)), BoolSort, s.T)
			}
			st.assume(Implies(Eq(s.T, BVInt(0, 32)), Not(ok)))
			res, facts := x.freshValue(tyFromGo(i.AssertedType), "asserted."+sanitizeSym(tname), st)
			for _, f := range facts {
				st.assume(f)
			}
			if !i.CommaOk {
				x.oblige(st, "typeassert", instrOrd(i), "type assertion to "+tname+" succeeds (no panic)", i.Pos(), ok)
				st.assume(ok)
				return res
			}
			return VTuple{[]Value{res, VScalar{ok, tyBool}}}
		}
	}
	if named == nil || !types.IsInterface(i.AssertedType) {
		vfail("type assertion to %s is outside the subset (only named interface types)", i.AssertedType)
	}
	to := tyFromGo(i.AssertedType)
	var ok *Term
	var res Value
	switch s := v.(type) {
	case VIfaceObj:
		impl := types.Implements(types.NewPointer(s.Obj.Ty.Named), named.Underlying().(*types.Interface))
		ok = And(BoolConst(impl), Not(Eq(s.Obj.Ref, BVInt(0, 32))))
		res = VIfaceObj{Obj: s.Obj, Ty: to}
	case VScalar:
		if s.Ty.K != TIface {
			vfail("type assertion on %s", s.Ty)
		}
		name := "is" + named.Obj().Name()
		fn := x.W.SpecFns[name]
		if fn == nil || fn.Body != nil || len(fn.Params) != 1 {
			vfail("type assertion to %s: declare the uninterpreted predicate 'spec func %s(m iface) bool'", named.Obj().Name(), name)
		}
		ok = App(specFnSym(name), BoolSort, s.T)
		st.assume(Implies(Eq(s.T, BVInt(0, 32)), Not(ok)))
		res = VScalar{Ite(ok, s.T, BVInt(0, 32)), to}
	default:
		vfail("type assertion on %T", v)
	}
	if !i.CommaOk {
		x.oblige(st, "typeassert", instrOrd(i), "type assertion to "+named.Obj().Name()+" succeeds (no panic)", i.Pos(), ok)
		st.assume(ok)
		return res
	}
	return VTuple{[]Value{res, VScalar{ok, tyBool}}}
}

func sanitizeSym(n string) string {
	var b strings.Builder
	for _, r := range n {
		if r >= 'a' && r <= 'z' || r >= 'A' && r <= 'Z' || r >= '0' && r <= '9' || r == '_' {
			b.WriteRune(r)
		} else {
			b.WriteRune('_')
		}
	}
	return b.String()
}

// ---------- constants ----------

func constantStringVal(c *ssa.Const) string {
	s := c.Value.ExactString()
	// ExactString of a string constant is a quoted Go string
	var out string
	fmt.Sscanf(s, "%q", &out)
	return out
}

var _ = big.NewInt
var _ = sort.Strings
