package main

// Call instruction semantics.

import (
	"math/big"
	"fmt"
	"go/types"
	"path/filepath"
	"strings"

	"golang.org/x/tools/go/ssa"
)

func (x *Exec) call(st *State, i *ssa.Call, fr *frame, k func(*State)) {
	c := i.Common()
	if b, ok := c.Value.(*ssa.Builtin); ok {
		x.builtin(st, i, b, k)
		return
	}
	var args []Value
	for _, a := range c.Args {
		args = append(args, x.val(st, a))
	}
	if c.IsInvoke() {
		x.invoke(st, i, args, fr, k)
		return
	}
	callee := c.StaticCallee()
	var binds []Value
	if callee == nil {
		// call through a function value
		fv := x.val(st, c.Value)
		cl, ok := fv.(VClosure)
		if !ok {
			vfail("dynamic call through %T", fv)
		}
		callee, binds = cl.Fn, cl.Binds
	} else if mc, ok := c.Value.(*ssa.MakeClosure); ok {
		for _, b := range mc.Bindings {
			binds = append(binds, x.val(st, b))
		}
	}
	if callee.Name() == "ssa:deferstack" || strings.HasPrefix(callee.Name(), "ssa:") {
		st.regs[i] = VOpaque{nil, "deferstack"}
		k(st)
		return
	}
	x.callStatic(st, i, callee, args, binds, fr, k)
}

// callStatic: a call whose callee is known (static call, closure, or an interface method call
// on a value whose dynamic type is known).
func (x *Exec) callStatic(st *State, i *ssa.Call, callee *ssa.Function, args, binds []Value, fr *frame, k func(*State)) {
	c := i.Common()
	fi := x.W.funcInfo(callee)
	setResult := func(s *State, rs []Value) {
		switch len(rs) {
		case 0:
		case 1:
			s.regs[i] = rs[0]
		default:
			s.regs[i] = VTuple{rs}
		}
	}
	// special externals
	if x.specialCall(st, i, callee, args, setResult, k, fr) {
		return
	}
	if callee.Blocks != nil && x.shouldInline(fi) && fr.depth < 6 {
		nfr := &frame{fi: fi, depth: fr.depth + 1}
		nfr.ret = func(s *State, rs []Value) {
			setResult(s, rs)
			k(s)
		}
		for j, p := range callee.Params {
			st.regs[p] = args[j]
		}
		for j, fv := range callee.FreeVars {
			st.regs[fv] = binds[j]
		}
		x.enterBlock(st, callee.Blocks[0], nil, nfr)
		return
	}
	if fi.Spec != nil {
		rs := x.applyContract(st, i, fi, fi.Spec, args, binds)
		setResult(st, rs)
		k(st)
		return
	}
	if ext := x.W.FuncSpecs[externKey(callee)]; ext != nil {
		x.W.Assumes["external function "+externKey(callee)+": assumed contract ("+filepath.Base(ext.File)+"), body not verified"] = true
		efi := &FuncInfo{Fn: callee, Spec: ext, Key: externKey(callee), Cells: map[string][]*ssa.Alloc{}}
		rs := x.applyContract(st, i, efi, ext, args, nil)
		setResult(st, rs)
		k(st)
		return
	}
	// a function of this module that the contracts do not know (a helper introduced by a change):
	// its body is executed in place of the call, like an `inline` function - a loop in it is cut by
	// the invariant true, its stores carry the caller's frame obligations
	if callee.Blocks != nil && callee.Pkg != nil && strings.HasPrefix(callee.Pkg.Pkg.Path(), modPath) && fr.depth < 4 && !x.onInlineStack(fr, callee) {
		x.W.noteOnce("call to " + callee.String() + " (no contract): body inlined at the call site")
		pre := st.clone()
		pre.hyps = append([]*Term(nil), st.hyps...)
		pre.path = append([]string(nil), st.path...)
		pre.effects = append([]Effect(nil), st.effects...)
		inCallee, failed := true, false
		func() {
			defer func() {
				if r := recover(); r != nil {
					e, ok := r.(vcErr)
					if !ok || !inCallee {
						panic(r)
					}
					// the helper's body is outside the subset: treated as an unknown callee below
					failed = true
					x.W.noteOnce("call to " + callee.String() + ": body not executable symbolically (" + e.msg + "): treated as an unknown callee")
				}
			}()
			nfr := &frame{fi: fi, depth: fr.depth + 1, parent: fr}
			nfr.ret = func(s *State, rs []Value) {
				inCallee = false
				setResult(s, rs)
				k(s)
				inCallee = true
			}
			for j, p := range callee.Params {
				st.regs[p] = args[j]
			}
			for j, fv := range callee.FreeVars {
				if j < len(binds) {
					st.regs[fv] = binds[j]
				}
			}
			x.enterBlock(st, callee.Blocks[0], nil, nfr)
		}()
		if !failed {
			return
		}
		st = pre
	}
	// no contract: havoc results
	ptrArg := false
	for _, a := range c.Args {
		t := tyFromGo(a.Type())
		if t.K == TSlice && !t.IsStr || t.K == TPtr {
			ptrArg = true
		}
	}
	if ptrArg {
		if callee.Signature.Recv() == nil && callee.Pkg != nil && readOnlyStdPkgs[callee.Pkg.Pkg.Path()] {
			// package-level functions of these standard packages only read their arguments
			x.W.Assumes["call to "+externKey(callee)+" has no contract: a read-only standard-library function (reads its arguments, writes nothing); results unconstrained"] = true
		} else {
			// an unknown callee that receives pointers may write anything reachable from them (and,
			// for a method on a package-level object, keep what it is given): nothing of that can be
			// shown to stay within the caller's frame. Reported as a failing obligation of the caller
			// (such a call only appears in changed code); execution continues with havocked results.
			x.oblige(st, "extern-frame", instrOrd(i)+"/"+callee.Name(), "call to "+callee.String()+" (no contract) passes pointers: its effects cannot be shown to stay within the frame of the caller", i.Pos(), False)
		}
	}
	x.W.Assumes["call to "+externKey(callee)+" has no contract: results unconstrained"] = true
	var rs []Value
	res := callee.Signature.Results()
	for j := 0; j < res.Len(); j++ {
		v, facts := x.freshValue(tyFromGo(res.At(j).Type()), callee.Name()+"!ret", st)
		for _, f := range facts {
			st.assume(f)
		}
		rs = append(rs, v)
	}
	setResult(st, rs)
	k(st)
}

// readOnlyStdPkgs: standard packages whose package-level functions do not write through their
// arguments and keep no reference to them (methods - bytes.Buffer, strings.Builder ... - are not covered)
var readOnlyStdPkgs = map[string]bool{"bytes": true, "strings": true, "unicode/utf8": true, "unicode": true, "math/bits": true, "math": true, "strconv": true}

// applyContract: assert requires, havoc assigned state, assume ensures.
func (x *Exec) applyContract(st *State, i *ssa.Call, fi *FuncInfo, fs *FuncSpec, args []Value, binds []Value) []Value {
	callee := fi.Fn
	// captured variables of a closure callee: bind names to the cells
	if len(callee.FreeVars) > 0 && binds != nil {
		for j, fv := range callee.FreeVars {
			st.regs[fv] = binds[j]
		}
	}
	pre := x.funcEnvExt(fi, fs, "pre", st, nil, args, nil)
	n := 0
	for _, c := range fs.Clauses {
		if c.Kind != "requires" {
			continue
		}
		n++
		t, err := pre.EvalBool(c.E)
		if err != nil {
			vfail("%s: requires %s at call: %v", c.Line, c.Text, err)
		}
		x.oblige(st, "call-pre", fmt.Sprintf("%s/%s#%d", instrOrd(i), callee.Name(), n), "precondition of "+callee.Name()+": "+c.Text, i.Pos(), t)
		st.assume(t)
	}
	old := st.clone()
	// havoc
	eff := &effects{cells: map[*ssa.Alloc]bool{}, heaps: map[string]*heapEff{}, globals: map[*ssa.Global]bool{}}
	x.resultEffects(st, callee, eff)
	for _, c := range fs.Clauses {
		if c.Kind == "dyntype" && callee.Pkg != nil {
			// an interface result holding a freshly allocated object of the module
			if f := strings.Fields(c.Text); len(f) == 2 {
				if tm, ok := callee.Pkg.Members[strings.TrimPrefix(f[1], "*")].(*ssa.Type); ok {
					if named, ok := tm.Type().(*types.Named); ok {
						x.typeHeapEffects(st, &STy{K: TPtr, Named: named}, eff)
					}
				}
			}
		}
	}
	for _, c := range fs.Clauses {
		if c.Kind != "assigns" || strings.TrimSpace(c.Text) == "nothing" {
			continue
		}
		for _, it := range strings.Split(c.Text, ",") {
			x.calleeAssign(st, fi, pre, strings.TrimSpace(it), eff, i)
		}
	}
	if eff.allocs {
		na := FreshVar("alloc", RegSort)
		st.assume(BVCmp("bvule", old.alloc, na))
		st.assume(BVCmp("bvult", na, BVInt(0x40000000, 32)))
		st.alloc = na
	}
	x.havocHeaps(st, old, eff)
	x.wfObjects(st, eff)
	for a := range eff.cells {
		ty := tyFromGo(cellElemType(a))
		v, facts := x.freshValue(ty, a.Comment, st)
		st.cells[a] = v
		for _, f := range facts {
			st.assume(f)
		}
	}
	for g := range eff.globals {
		ty := tyFromGo(g.Type().(*types.Pointer).Elem())
		v, _ := x.freshValue(ty, globalName(g), st)
		st.globals[g] = v
	}
	// results
	var rs []Value
	res := callee.Signature.Results()
	for j := 0; j < res.Len(); j++ {
		v, facts := x.freshValue(tyFromGo(res.At(j).Type()), callee.Name()+"!ret", st)
		for _, f := range facts {
			st.assume(f)
		}
		// dyntype r *T: the interface result is known to hold a pointer to a T
		for _, c := range fs.Clauses {
			if c.Kind != "dyntype" {
				continue
			}
			f := strings.Fields(c.Text)
			if len(f) == 2 && j < len(fs.Results) && fs.Results[j] == f[0] && callee.Pkg != nil {
				if tm, ok := callee.Pkg.Members[strings.TrimPrefix(f[1], "*")].(*ssa.Type); ok {
					if named, ok := tm.Type().(*types.Named); ok {
						ref := FreshVar(callee.Name()+"!obj", RegSort)
						st.assume(BVCmp("bvult", ref, st.alloc))
						v = VIfaceObj{Obj: PObj{ref, &STy{K: TPtr, Named: named}}, Ty: tyFromGo(res.At(j).Type())}
					}
				}
			}
		}
		switch o := v.(type) {
		case PObj:
			x.wfResultObject(st, o, 0)
		case VIfaceObj:
			x.wfResultObject(st, o.Obj, 0)
		}
		rs = append(rs, v)
	}
	for _, c := range fs.Clauses {
		if c.Kind == "logged" {
			// an external call recorded in the call log (arguments as they were at the call)
			st.effects = append(st.effects, Effect{Kind: fi.Key, Args: args, Rets: rs, Heap: old.heaps})
		}
	}
	post := x.funcEnvExt(fi, fs, "post", st, old, args, rs)
	for _, c := range fs.Clauses {
		if c.Kind == "establishes" && callee.Pkg != nil {
			// the callee establishes the invariants of the tables it assigns
			assigned := map[string]bool{}
			for _, ac := range fs.Clauses {
				if ac.Kind == "assigns" {
					for _, it := range strings.Split(ac.Text, ",") {
						assigned[strings.TrimSpace(it)] = true
					}
				}
			}
			for _, gi := range x.W.GlobalInvs {
				if gi.Pkg != fs.Pkg || !assigned[gi.Name] {
					continue
				}
				gev := &Env{W: x.W, st: st, pkg: callee.Pkg, bound: map[string]SVal{}}
				if t, err := gev.EvalBool(gi.E); err == nil {
					st.assume(t)
				}
			}
		}
		if c.Kind == "defines" {
			// functional consistency: the (single) result is a function of the argument values
			v, err := post.EvalVal(c.E)
			if err != nil {
				vfail("%s: defines %s: %v", c.Line, c.Text, err)
			}
			if si, ok := v.(SInt); ok && len(rs) == 1 {
				st.assume(Eq(asScalar(rs[0]).T, si.T))
				x.W.Assumes["functional consistency: "+fi.Key+" is deterministic; its result is named "+c.Text+" (pure function: assigns nothing, reads no mutable state)"] = true
			} else {
				vfail("%s: defines needs a single integer result", c.Line)
			}
		}
		if c.Kind != "ensures" {
			continue
		}
		t, err := post.EvalBool(c.E)
		if err != nil {
			vfail("%s: ensures %s at call: %v", c.Line, c.Text, err)
		}
		st.assume(t)
	}
	return rs
}

// funcEnvExt is funcEnv extended to external contracts (parameter names come from the contract).
func (x *Exec) funcEnvExt(fi *FuncInfo, fs *FuncSpec, mode string, cur, old *State, args, results []Value) *Env {
	if !fs.External {
		return x.funcEnv(fi, mode, cur, old, args, results)
	}
	ev := &Env{W: x.W, st: cur, old: old, bound: map[string]SVal{}}
	ev.lookup = func(name string, st *State, isOld bool) (Value, bool) {
		for j, p := range fs.Params {
			if p.Name == name && j < len(args) {
				return args[j], true
			}
		}
		for j, r := range fs.Results {
			if r == name && results != nil && j < len(results) {
				return results[j], true
			}
		}
		return nil, false
	}
	return ev
}

// calleeAssign translates an assigns item of a callee at a call site into heap effects and
// checks that the caller itself is allowed to modify that state.
func (x *Exec) calleeAssign(st *State, fi *FuncInfo, pre *Env, it string, eff *effects, i *ssa.Call) {
	if key, gfn, k, ok := x.ghostItem(pre, it); ok {
		x.frameCheckGhost(st, key, k, it, i)
		x.addGhostEff(st, eff, gfn, []*Term{k}, false)
		return
	}
	if strings.HasSuffix(it, "[*]") {
		e, err := ParseExpr(strings.TrimSuffix(it, "[*]"))
		if err != nil {
			vfail("assigns %s: %v", it, err)
		}
		v, err := pre.EvalVal(e)
		if err != nil {
			vfail("assigns %s: %v", it, err)
		}
		s, ok := v.(SSlice)
		if !ok || s.Reg == nil {
			vfail("assigns %s: not a slice", it)
		}
		x.frameCheckRegion(st, s.Reg, i)
		if fi.Spec != nil && fi.Spec.External && s.Off != nil && s.Len != nil && s.Ty.Elem.scalarSort() != nil {
			// assumed contract of an external: "p[*]" means exactly the elements p[0..len(p))
			x.addHeapEff(st, eff, s.Ty.Elem, nil, false)
			he := eff.heaps[heapKey(s.Ty.Elem, "")]
			he.wins = append(he.wins, heapWin{s.Reg, s.Off, s.Len})
			return
		}
		x.addHeapEff(st, eff, s.Ty.Elem, []*Term{s.Reg}, false)
		return
	}
	if k := strings.LastIndex(it, "."); k >= 0 {
		e, err := ParseExpr(it[:k])
		if err == nil {
			if v, err := pre.EvalVal(e); err == nil {
				if p, ok := v.(SPtr); ok {
					s := p.Ty.Named.Underlying().(*types.Struct)
					for f := 0; f < s.NumFields(); f++ {
						if s.Field(f).Name() == it[k+1:] {
							x.frameCheckField(st, PField{PObj{p.Ref, p.Ty}, f}, i)
							x.addFieldEff(st, eff, p.Ty.Named, f, []*Term{p.Ref}, false)
							return
						}
					}
				}
			}
		}
	}
	fn := fi.Fn
	pkg := fn.Pkg
	if pkg == nil && fn.Parent() != nil {
		pkg = fn.Parent().Pkg
	}
	if pkg != nil {
		if g, ok := pkg.Members[it].(*ssa.Global); ok {
			x.frameCheckGlobal(st, g, i)
			eff.globals[g] = true
			return
		}
	}
	for _, fv := range fn.FreeVars {
		if fv.Name() == it {
			if pc, ok := st.regs[fv].(PCell); ok {
				eff.cells[pc.A] = true
				return
			}
		}
	}
	vfail("assigns: cannot resolve %q of %s at call site", it, fi.Key)
}

func (x *Exec) closureSpec(st *State, i *ssa.Call) *FuncInfo {
	fv, ok := st.regs[i.Common().Value]
	if !ok {
		// value may be a load of a cell holding the closure: find the single MakeClosure stored
		if ld, ok := i.Common().Value.(*ssa.UnOp); ok {
			if a, ok := ld.X.(*ssa.Alloc); ok {
				if v, ok := st.cells[a].(VClosure); ok {
					fi := x.W.funcInfo(v.Fn)
					if fi.Spec != nil {
						return fi
					}
				}
			}
			if fvr, ok := ld.X.(*ssa.FreeVar); ok {
				if pc, ok := st.regs[fvr].(PCell); ok {
					if v, ok := st.cells[pc.A].(VClosure); ok {
						fi := x.W.funcInfo(v.Fn)
						if fi.Spec != nil {
							return fi
						}
					}
				}
			}
		}
		return nil
	}
	if cl, ok := fv.(VClosure); ok {
		fi := x.W.funcInfo(cl.Fn)
		if fi.Spec != nil {
			return fi
		}
	}
	return nil
}

// ---------- builtins ----------

func (x *Exec) builtin(st *State, i *ssa.Call, b *ssa.Builtin, k func(*State)) {
	c := i.Common()
	switch b.Name() {
	case "len", "cap":
		v := x.val(st, c.Args[0])
		switch s := v.(type) {
		case VSlice:
			t := s.Len
			if b.Name() == "cap" {
				t = s.Cap
			}
			st.regs[i] = VScalar{t, tyInt}
		case PArr:
			st.regs[i] = VScalar{BVInt(s.Ty.N, 64), tyInt}
		case VArr:
			st.regs[i] = VScalar{BVInt(s.Ty.N, 64), tyInt}
		default:
			vfail("len of %T", v)
		}
		k(st)
	case "append":
		x.appendCall(st, i, k)
	case "copy":
		x.copyCall(st, i)
		k(st)
	case "print", "println":
		k(st)
	case "ssa:deferstack":
		st.regs[i] = VOpaque{nil, "deferstack"}
		k(st)
	default:
		vfail("builtin %s not supported", b.Name())
	}
}

func (x *Exec) appendCall(st *State, i *ssa.Call, k func(*State)) {
	c := i.Common()
	s := asSlice(x.val(st, c.Args[0]))
	t := asSlice(x.val(st, c.Args[1]))
	e := s.Ty.Elem
	if t.Ty.IsStr && !(e.K == TInt && e.W == 8) {
		vfail("append string to non-byte slice")
	}
	newLen := BVBin("bvadd", s.Len, t.Len)
	fits := BVCmp("bvsle", newLen, s.Cap)
	// constant element count (the common variadic case)?
	var n int64 = -1
	if ut := unmark(t.Len); ut.IsConst() && ut.Val.IsInt64() && ut.Val.Int64() <= 4 {
		n = ut.Val.Int64()
	}
	run := func(st *State, inPlace bool) {
		if inPlace {
			st.assume(fits)
			st.path = append(st.path, "a")
		} else {
			st.assume(Not(fits))
			st.path = append(st.path, "g")
		}
		var res VSlice
		if inPlace {
			res = VSlice{Reg: s.Reg, Off: s.Off, Len: newLen, Cap: s.Cap, Ty: s.Ty}
			if n != 0 {
				x.frameCheckRegion(st, s.Reg, i)
			}
			if n >= 0 {
				for j := int64(0); j < n; j++ {
					v := loadElem(st, e, t.Reg, BVBin("bvadd", t.Off, BVInt(j, 64)))
					storeElem(st, e, s.Reg, BVBin("bvadd", BVBin("bvadd", s.Off, s.Len), BVInt(j, 64)), v)
				}
			} else {
				x.bulkCopy(st, e, s.Reg, BVBin("bvadd", s.Off, s.Len), t, t.Len)
			}
		} else {
			reg := st.alloc
			st.alloc = BVBin("bvadd", st.alloc, BVInt(1, 32))
			nc := FreshVar("newcap", IdxSort)
			st.assume(BVCmp("bvsle", newLen, nc))
			st.assume(BVCmp("bvsle", nc, BVInt(maxLenFor(e), 64)))
			res = VSlice{Reg: reg, Off: BVInt(0, 64), Len: newLen, Cap: nc, Ty: s.Ty}
			// contents: copy of s, then t
			x.freshRegionFrom(st, e, reg, s, t, n)
		}
		st.regs[i] = res
		k(st)
	}
	if fits == True {
		run(st, true)
		return
	}
	if fits == False {
		run(st, false)
		return
	}
	x.paths++
	s2 := st.clone()
	run(st, true)
	run(s2, false)
}

// freshRegionFrom initialises region reg with the elements of s followed by those of t.
func (x *Exec) freshRegionFrom(st *State, e *STy, reg *Term, s, t VSlice, n int64) {
	for _, key := range elemHeapKeys(e) {
		srt := compSort(key, e)
		h := st.heap(key, srt)
		na := FreshVar("appended", ArrSort(IdxSort, srt))
		kv := BoundVar("k", IdxSort, "s64")
		srcArr := Select(h, Mark(s.Reg, "reg"))
		st.assume(Forall([]*Term{kv}, Implies(And(BVCmp("bvsle", BVInt(0, 64), kv), BVCmp("bvslt", kv, s.Len)),
			Eq(Select(na, Mark(kv, "s64")), Select(srcArr, BVBin("bvadd", s.Off, Mark(kv, "s64")))))))
		tArr := Select(h, Mark(t.Reg, "reg"))
		if n >= 0 {
			for j := int64(0); j < n; j++ {
				na2 := Store(na, BVBin("bvadd", s.Len, BVInt(j, 64)), Select(tArr, BVBin("bvadd", t.Off, BVInt(j, 64))))
				na = na2
			}
		} else {
			nb := FreshVar("appended", ArrSort(IdxSort, srt))
			k2 := BoundVar("k", IdxSort, "s64")
			st.assume(Forall([]*Term{k2}, Implies(And(BVCmp("bvsle", BVInt(0, 64), k2), BVCmp("bvslt", k2, s.Len)),
				Eq(Select(nb, Mark(k2, "s64")), Select(na, Mark(k2, "s64"))))))
			k3 := BoundVar("k", IdxSort, "s64")
			st.assume(Forall([]*Term{k3}, Implies(And(BVCmp("bvsle", BVInt(0, 64), k3), BVCmp("bvslt", k3, t.Len)),
				Eq(Select(nb, BVBin("bvadd", s.Len, Mark(k3, "s64"))), Select(tArr, BVBin("bvadd", t.Off, Mark(k3, "s64")))))))
			na = nb
		}
		st.heaps[key] = Store(h, reg, na)
	}
}

// bulkCopy writes n elements of src (from its offset) into region reg starting at position pos.
func (x *Exec) bulkCopy(st *State, e *STy, reg, pos *Term, src VSlice, n *Term) {
	for _, key := range elemHeapKeys(e) {
		srt := compSort(key, e)
		h := st.heap(key, srt)
		old := Select(h, Mark(reg, "reg"))
		srcArr := Select(h, Mark(src.Reg, "reg"))
		na := FreshVar("copied", ArrSort(IdxSort, srt))
		kv := BoundVar("k", IdxSort, "s64")
		st.assume(Forall([]*Term{kv}, Implies(And(BVCmp("bvsle", BVInt(0, 64), kv), BVCmp("bvslt", kv, n)),
			Eq(Select(na, BVBin("bvadd", pos, Mark(kv, "s64"))), Select(srcArr, BVBin("bvadd", src.Off, Mark(kv, "s64")))))))
		k2 := BoundVar("k", IdxSort, "s64")
		st.assume(Forall([]*Term{k2}, Implies(Or(BVCmp("bvslt", k2, pos), BVCmp("bvsle", BVBin("bvadd", pos, n), k2)),
			Eq(Select(na, Mark(k2, "s64")), Select(old, Mark(k2, "s64"))))))
		st.heaps[key] = Store(h, reg, na)
	}
}

func (x *Exec) copyCall(st *State, i *ssa.Call) {
	c := i.Common()
	d := asSlice(x.val(st, c.Args[0]))
	s := asSlice(x.val(st, c.Args[1]))
	n := Ite(BVCmp("bvslt", d.Len, s.Len), d.Len, s.Len)
	nv := FreshVar("ncopy", IdxSort)
	st.assume(Eq(nv, n))
	x.frameCheckRegion(st, d.Reg, i)
	x.bulkCopy(st, d.Ty.Elem, d.Reg, d.Off, s, nv)
	st.regs[i] = VScalar{nv, tyInt}
}

// ---------- interface method calls ----------

func (x *Exec) invoke(st *State, i *ssa.Call, args []Value, fr *frame, k func(*State)) {
	c := i.Common()
	if io, ok := x.val(st, c.Value).(VIfaceObj); ok {
		// the dynamic type is known (a pointer to a struct of the module): ordinary method call
		x.oblige(st, "nil", instrOrd(i), "method call on a non-nil interface value", i.Pos(), Not(Eq(io.Obj.Ref, BVInt(0, 32))))
		st.assume(Not(Eq(io.Obj.Ref, BVInt(0, 32))))
		ms := x.W.Prog.MethodSets.MethodSet(types.NewPointer(io.Obj.Ty.Named))
		sel := ms.Lookup(c.Method.Pkg(), c.Method.Name())
		if sel == nil {
			vfail("dynamic type %s has no method %s", io.Obj.Ty.Named, c.Method.Name())
		}
		callee := x.W.Prog.MethodValue(sel)
		x.callStatic(st, i, callee, append([]Value{io.Obj}, args...), nil, fr, k)
		return
	}
	recvT := c.Value.Type()
	name := types.TypeString(recvT, func(p *types.Package) string { return p.Path() }) + "." + c.Method.Name()
	fs := x.W.FuncSpecs[name]
	if fs == nil {
		vfail("interface call %s has no assumed contract", name)
	}
	recv := x.val(st, c.Value)
	x.W.Assumes["interface method "+name+" follows its documented contract (assumed)"] = true
	callArgs := append([]Value{recv}, args...)
	// results
	var rs []Value
	res := c.Signature().Results()
	for j := 0; j < res.Len(); j++ {
		v, facts := x.freshValue(tyFromGo(res.At(j).Type()), c.Method.Name()+"!ret", st)
		for _, f := range facts {
			st.assume(f)
		}
		rs = append(rs, v)
	}
	ev := &Env{W: x.W, st: st, bound: map[string]SVal{}}
	old := st.clone()
	ev.old = old
	ev.lookup = func(nm string, s *State, isOld bool) (Value, bool) {
		for j, p := range fs.Params {
			if p.Name == nm && j < len(callArgs) {
				return callArgs[j], true
			}
		}
		for j, r := range fs.Results {
			if r == nm && j < len(rs) {
				return rs[j], true
			}
		}
		return nil, false
	}
	n := 0
	for _, cl := range fs.Clauses {
		if cl.Kind == "requires" {
			n++
			t, err := ev.EvalBool(cl.E)
			if err != nil {
				vfail("%s: %v", cl.Line, err)
			}
			x.oblige(st, "call-pre", fmt.Sprintf("%s/%s#%d", instrOrd(i), c.Method.Name(), n), "precondition of "+name, i.Pos(), t)
		}
	}
	heapSnap := map[string]*Term{}
	for kk, v := range st.heaps {
		heapSnap[kk] = v
	}
	logged := true
	for _, cl := range fs.Clauses {
		if cl.Kind == "pure" {
			logged = false // a query method: assumed to change nothing observable; kept out of the call log
		}
	}
	if logged {
		st.effects = append(st.effects, Effect{Kind: name, Args: callArgs, Rets: rs, Heap: heapSnap})
	}
	for _, cl := range fs.Clauses {
		if cl.Kind == "ensures" {
			t, err := ev.EvalBool(cl.E)
			if err != nil {
				vfail("%s: %v", cl.Line, err)
			}
			st.assume(t)
		}
	}
	switch len(rs) {
	case 0:
	case 1:
		st.regs[i] = rs[0]
	default:
		st.regs[i] = VTuple{rs}
	}
	k(st)
}

// specialCall handles externals whose semantics are built in. Returns true if handled.
func (x *Exec) specialCall(st *State, i *ssa.Call, callee *ssa.Function, args []Value, setResult func(*State, []Value), k func(*State), fr *frame) bool {
	// initialisers of imported packages: they establish their own packages' tables
	if callee.Name() == "init" && callee.Signature.Params().Len() == 0 && callee.Pkg != nil && callee != x.top.Fn {
		k(st)
		return true
	}
	// openacid/must in a -tags debug build: assumed contracts of the assertion helpers
	if callee.Pkg != nil && callee.Pkg.Pkg.Path() == "github.com/openacid/must/enabled" && callee.Signature.Recv() != nil {
		x.W.Assumes["openacid/must (debug build): Be.OK(f) calls f exactly once; Be.Equal/NotEqual/True panic iff the comparison fails (for two values of the same integer type: value (in)equality); no other effect"] = true
		payload := func(v Value) (VScalar, bool) {
			if s, ok := v.(VScalar); ok {
				if s.Ty.K == TIface && st.boxed != nil {
					if p, ok := st.boxed[s.T].(VScalar); ok {
						return p, true
					}
					return VScalar{}, false
				}
				return s, true
			}
			return VScalar{}, false
		}
		switch callee.Name() {
		case "OK":
			cl, ok := args[1].(VClosure)
			if !ok {
				vfail("must.Be.OK: argument is not a closure literal")
			}
			cfi := x.W.funcInfo(cl.Fn)
			nfr := &frame{fi: cfi, depth: fr.depth + 1}
			nfr.ret = func(s *State, rs []Value) { k(s) }
			for j, fv := range cl.Fn.FreeVars {
				st.regs[fv] = cl.Binds[j]
			}
			x.enterBlock(st, cl.Fn.Blocks[0], nil, nfr)
			return true
		case "Equal", "NotEqual":
			a, aok := payload(args[1])
			b, bok := payload(args[2])
			var g *Term
			if !aok || !bok || a.T.S != b.T.S || a.Ty.K != b.Ty.K || (a.Ty.K == TInt && (a.Ty.W != b.Ty.W || a.Ty.Signed != b.Ty.Signed)) {
				g = False // different dynamic types are never ObjectsAreEqual
				if callee.Name() == "NotEqual" {
					g = True
				}
			} else if callee.Name() == "Equal" {
				g = Eq(a.T, b.T)
			} else {
				g = Not(Eq(a.T, b.T))
			}
			x.oblige(st, "must", instrOrd(i), "debug contract must.Be."+callee.Name()+" holds (no contract panic)", i.Pos(), g)
			st.assume(g)
			k(st)
			return true
		case "True":
			c, ok := payload(args[1])
			if !ok || !c.T.S.IsBool() {
				vfail("must.Be.True: unsupported argument")
			}
			x.oblige(st, "must", instrOrd(i), "debug contract must.Be.True holds (no contract panic)", i.Pos(), c.T)
			st.assume(c.T)
			k(st)
			return true
		}
		vfail("must.Be.%s is not modelled", callee.Name())
	}
	// golang/protobuf legacy messages: a message type with its own Marshal / Reset+Unmarshal
	// methods is encoded / decoded by those methods (documented legacy support, ASSUMED)
	if callee.Pkg != nil && callee.Pkg.Pkg.Path() == "github.com/golang/protobuf/proto" {
		method := func(v Value, name string) (*ssa.Function, PObj, bool) {
			io, ok := v.(VIfaceObj)
			if !ok {
				return nil, PObj{}, false
			}
			ms := x.W.Prog.MethodSets.MethodSet(types.NewPointer(io.Obj.Ty.Named))
			for j := 0; j < ms.Len(); j++ {
				if ms.At(j).Obj().Name() == name {
					return x.W.Prog.MethodValue(ms.At(j)), io.Obj, true
				}
			}
			return nil, PObj{}, false
		}
		note := "golang/protobuf: proto.Marshal(m) / proto.Unmarshal(b, m) of a message type that has its own Marshal() / Reset()+Unmarshal([]byte) methods return what those methods return (documented legacy Marshaler/Unmarshaler support; assumed)"
		switch callee.Name() {
		case "Marshal":
			if m, obj, ok := method(args[0], "Marshal"); ok && m.Signature.Params().Len() == 0 && m.Signature.Results().Len() == 2 {
				x.W.Assumes[note] = true
				x.callStatic(st, i, m, []Value{obj}, nil, fr, k)
				return true
			}
		case "Unmarshal":
			rs, obj, ok1 := method(args[1], "Reset")
			um, _, ok2 := method(args[1], "Unmarshal")
			if ok1 && ok2 && um.Signature.Params().Len() == 1 && um.Signature.Results().Len() == 1 {
				x.W.Assumes[note] = true
				x.callStatic(st, i, rs, []Value{obj}, nil, fr, func(s *State) {
					x.callStatic(s, i, um, []Value{obj, args[0]}, nil, fr, k)
				})
				return true
			}
		}
	}
	// fmt.Sprintf("%0[1]*[2]b", w, v): v in binary, zero-padded to width w (documented fmt
	// behaviour, ASSUMED; only this format is modelled - any other Sprintf result is opaque)
	if callee.Pkg != nil && callee.Pkg.Pkg.Path() == "fmt" && callee.Name() == "Sprintf" && len(args) == 2 {
		if fc, ok := i.Common().Args[0].(*ssa.Const); ok && fc.Value != nil && constantStringVal(fc) == "%0[1]*[2]b" {
			if va, ok := args[1].(VSlice); ok {
				payload := func(j int64) (VScalar, bool) {
					e, ok := loadElem(st, &STy{K: TIface}, va.Reg, BVBin("bvadd", va.Off, BVInt(j, 64))).(VScalar)
					if !ok || st.boxed == nil {
						return VScalar{}, false
					}
					p, ok := st.boxed[e.T].(VScalar)
					return p, ok && p.Ty.K == TInt
				}
				wv, ok1 := payload(0)
				vv, ok2 := payload(1)
				if ok1 && ok2 && wv.Ty.Signed {
					x.W.Assumes[`fmt.Sprintf("%0[1]*[2]b", w, v) (w >= 0) is v in binary, zero-padded on the left to at least w characters; a negative signed v starts with '-' (documented fmt behaviour, assumed; checked concretely by the replay driver)`] = true
					w64 := SExt(wv.T, 64)
					var v64 *Term
					neg := False
					if vv.Ty.W == 64 {
						v64 = vv.T
					} else if vv.Ty.Signed {
						v64 = SExt(vv.T, 64)
					} else {
						v64 = ZExt(vv.T, 64)
					}
					if vv.Ty.Signed {
						neg = BVCmp("bvslt", v64, BVInt(0, 64))
					}
					reg := x.allocRegion(st, nil)
					arr := FreshVar("sprintf.text", ArrSort(IdxSort, BV(8)))
					hk := heapKey(tyU8, "")
					st.heaps[hk] = Store(st.heap(hk, BV(8)), reg, arr)
					ln := FreshVar("sprintf.len", IdxSort)
					one, z := BVInt(1, 64), BVInt(0, 64)
					okW := BVCmp("bvsle", z, w64)
					// length: at least w and 1, all significant bits fit, no superfluous leading zero
					fits := Or(BVCmp("bvsle", BVInt(64, 64), ln), Eq(BVBin("bvlshr", v64, ln), z))
					lead := Eq(BVBin("bvand", BVBin("bvlshr", v64, BVBin("bvsub", ln, one)), one), one)
					st.assume(BVCmp("bvsle", z, ln))
					st.assume(BVCmp("bvsle", ln, BVInt(int64(1)<<32, 64)))
					st.assume(Implies(And(okW, Not(neg)), And(BVCmp("bvsle", w64, ln), BVCmp("bvsle", one, ln), fits, Or(Eq(ln, w64), Eq(ln, one), lead))))
					kv := BoundVar("k", IdxSort, "s64")
					digit := BVBin("bvadd", BVInt(48, 8), Extract(7, 0, BVBin("bvand", BVBin("bvlshr", v64, BVBin("bvsub", BVBin("bvsub", ln, one), kv)), one)))
					st.assume(Implies(And(okW, Not(neg)), Forall([]*Term{kv}, Implies(And(BVCmp("bvsle", z, kv), BVCmp("bvslt", kv, ln)), Eq(Select(arr, Mark(kv, "s64")), digit)))))
					st.assume(Implies(And(okW, neg), And(BVCmp("bvsle", BVInt(2, 64), ln), Eq(Select(arr, z), BVInt(45, 8)))))
					setResult(st, []Value{VSlice{Reg: reg, Off: z, Len: ln, Cap: ln, Ty: tyString}})
					return x.finishSpecial(st, k)
				}
			}
		}
	}
	// fmt.Sprintf with any other constant format: the text is not modelled, but the result is
	// remembered as "a rendering of this format with these integer operands" through the
	// uninterpreted observers sprintfFmt(s) / sprintfInt(s, j) (speclib/05_reflect.spec) - ASSUMED:
	// fmt renders a format deterministically, so the format and its integer operands are a function
	// of the rendered text for the formats this module uses
	if callee.Pkg != nil && callee.Pkg.Pkg.Path() == "fmt" && callee.Name() == "Sprintf" && len(args) == 2 {
		fnF, okF := x.W.SpecFns["sprintfFmt"]
		fnI, okI := x.W.SpecFns["sprintfInt"]
		if fc, ok := i.Common().Args[0].(*ssa.Const); ok && fc.Value != nil && okF && okI {
			nargs := int64(-1)
			switch a := i.Common().Args[1].(type) {
			case *ssa.Const:
				nargs = 0
			case *ssa.Slice:
				if pt, ok := a.X.Type().Underlying().(*types.Pointer); ok {
					if at, ok := pt.Elem().Underlying().(*types.Array); ok {
						nargs = at.Len()
					}
				}
			}
			va, isSl := args[1].(VSlice)
			if nargs >= 0 && (isSl || nargs == 0) {
				format := constantStringVal(fc)
				x.W.Assumes[`fmt.Sprintf(<constant format>, operands...): the rendered text determines the format and its integer operands (observers sprintfFmt / sprintfInt; the text itself is not modelled)`] = true
				reg := x.allocRegion(st, nil)
				arr := FreshVar("sprintf.text", ArrSort(IdxSort, BV(8)))
				hk := heapKey(tyU8, "")
				st.heaps[hk] = Store(st.heap(hk, BV(8)), reg, arr)
				ln := FreshVar("sprintf.len", IdxSort)
				z := BVInt(0, 64)
				st.assume(BVCmp("bvsle", z, ln))
				st.assume(BVCmp("bvsle", ln, BVInt(int64(1)<<32, 64)))
				res := VSlice{Reg: reg, Off: z, Len: ln, Cap: ln, Ty: tyString}
				ev := &Env{W: x.W, st: st, bound: map[string]SVal{}}
				sv := sliceToS(res, st)
				if t, ok := x.W.applySpecFn(ev, fnF, []SVal{sv}).(SInt); ok {
					st.assume(Eq(t.T, BVConst(new(big.Int).SetUint64(fmtID(format)), 64)))
				}
				for j := int64(0); j < nargs; j++ {
					e, ok := loadElem(st, &STy{K: TIface}, va.Reg, BVBin("bvadd", va.Off, BVInt(j, 64))).(VScalar)
					if !ok || st.boxed == nil {
						continue
					}
					p, ok := st.boxed[e.T].(VScalar)
					if !ok || p.Ty.K != TInt {
						continue
					}
					v64 := p.T
					if p.Ty.W < 64 {
						if p.Ty.Signed {
							v64 = SExt(p.T, 64)
						} else {
							v64 = ZExt(p.T, 64)
						}
					}
					if t, ok := x.W.applySpecFn(ev, fnI, []SVal{sv, SInt{BVInt(j, 64), tyInt}}).(SInt); ok {
						st.assume(Eq(t.T, v64))
					}
				}
				setResult(st, []Value{res})
				return x.finishSpecial(st, k)
			}
		}
	}
	// encoding/binary.Size of a pointer to a struct of fixed-size fields: computed from the
	// declared type (documented: the sum of the sizes of the fields, no padding)
	if callee.Pkg != nil && callee.Pkg.Pkg.Path() == "encoding/binary" && callee.Name() == "Size" {
		if io, ok := args[0].(VIfaceObj); ok {
			if n, ok := binarySize(io.Obj.Ty.Named.Underlying()); ok {
				x.W.Assumes["encoding/binary.Size(&T{}) is the sum of the fixed sizes of T's fields (documented; computed here from the declared type "+io.Obj.Ty.Named.Obj().Name()+")"] = true
				setResult(st, []Value{VScalar{BVInt(n, 64), tyInt}})
				k(st)
				return true
			}
		}
	}
	// a function whose real body does nothing (e.g. the release-build stubs of openacid/must)
	if callee.Signature.Results().Len() == 0 && isTrivialNoop(callee) {
		k(st)
		return true
	}
	return false
}

func (x *Exec) finishSpecial(st *State, k func(*State)) bool {
	k(st)
	return true
}

// binarySize: encoding/binary's size of a fixed-size type (-1/false when not fixed-size).
func binarySize(t types.Type) (int64, bool) {
	switch u := t.Underlying().(type) {
	case *types.Basic:
		switch u.Kind() {
		case types.Bool, types.Int8, types.Uint8:
			return 1, true
		case types.Int16, types.Uint16:
			return 2, true
		case types.Int32, types.Uint32, types.Float32:
			return 4, true
		case types.Int64, types.Uint64, types.Float64, types.Complex64:
			return 8, true
		case types.Complex128:
			return 16, true
		}
	case *types.Array:
		if n, ok := binarySize(u.Elem()); ok {
			return n * u.Len(), true
		}
	case *types.Struct:
		var sum int64
		for i := 0; i < u.NumFields(); i++ {
			n, ok := binarySize(u.Field(i).Type())
			if !ok {
				return 0, false
			}
			sum += n
		}
		return sum, true
	}
	return 0, false
}

// isTrivialNoop reads the callee's SSA: only parameter spills, defer bookkeeping and a bare return.
func isTrivialNoop(fn *ssa.Function) bool {
	if len(fn.Blocks) != 1 {
		return false
	}
	for _, in := range fn.Blocks[0].Instrs {
		switch i := in.(type) {
		case *ssa.Alloc:
			if i.Heap {
				return false
			}
		case *ssa.Store:
			if _, ok := i.Addr.(*ssa.Alloc); !ok {
				return false
			}
		case *ssa.Call:
			if b, ok := i.Call.Value.(*ssa.Builtin); !ok || !strings.HasPrefix(b.Name(), "ssa:") {
				return false
			}
		case *ssa.RunDefers, *ssa.DebugRef:
		case *ssa.Return:
			if len(i.Results) != 0 {
				return false
			}
		default:
			return false
		}
	}
	return true
}
