package main

// SMT term layer: sorts, hash-consed terms with light simplification, SMT-LIB2 printer.

import (
	"fmt"
	"math/big"
	"sort"
	"strings"
)

type SortKind int

const (
	KBool SortKind = iota
	KBV
	KArr
	KUnint
)

type Sort struct {
	K         SortKind
	W         int
	Idx, Elem *Sort
	Name      string
	str       string
}

var sortCache = map[string]*Sort{}

func internSort(s *Sort) *Sort {
	var k string
	switch s.K {
	case KBool:
		k = "Bool"
	case KBV:
		k = fmt.Sprintf("(_ BitVec %d)", s.W)
	case KArr:
		k = fmt.Sprintf("(Array %s %s)", s.Idx.str, s.Elem.str)
	case KUnint:
		k = s.Name
	}
	if c, ok := sortCache[k]; ok {
		return c
	}
	s.str = k
	sortCache[k] = s
	return s
}

var BoolSort = internSort(&Sort{K: KBool})

func BV(w int) *Sort            { return internSort(&Sort{K: KBV, W: w}) }
func ArrSort(i, e *Sort) *Sort  { return internSort(&Sort{K: KArr, Idx: i, Elem: e}) }
func (s *Sort) String() string  { return s.str }
func (s *Sort) IsBV() bool      { return s.K == KBV }
func (s *Sort) IsBool() bool    { return s.K == KBool }
func (s *Sort) IsArr() bool     { return s.K == KArr }

var RegSort = BV(32) // region ids / object references
var IdxSort = BV(64) // element offsets inside a region

type Term struct {
	Op     string // const true false var app forall exists mark  + SMT ops
	Name   string
	Val    *big.Int
	Args   []*Term
	S      *Sort
	Bound  []*Term
	P1, P2 int
	id     int
	hasB   bool // contains a bound variable occurrence (free in this subterm)
	isBVar bool
	Key    string // bound variables: candidate class (s64, u64, s32, reg, ...)
}

var termTab = map[string]*Term{}
var termSeq int

func (t *Term) key() string {
	var sb strings.Builder
	sb.WriteString(t.Op)
	sb.WriteByte('|')
	sb.WriteString(t.Name)
	sb.WriteByte('|')
	if t.Val != nil {
		sb.WriteString(t.Val.Text(16))
	}
	fmt.Fprintf(&sb, "|%d|%d|%s|", t.P1, t.P2, t.S.str)
	for _, a := range t.Args {
		fmt.Fprintf(&sb, "%d,", a.id)
	}
	sb.WriteByte('|')
	for _, a := range t.Bound {
		fmt.Fprintf(&sb, "%d,", a.id)
	}
	return sb.String()
}

func intern(t *Term) *Term {
	k := t.key()
	if c, ok := termTab[k]; ok {
		return c
	}
	termSeq++
	t.id = termSeq
	for _, a := range t.Args {
		if a.hasB {
			t.hasB = true
		}
	}
	if t.isBVar {
		t.hasB = true
	}
	if len(t.Bound) > 0 {
		// still conservatively marked as containing bound vars if body has any other
		// bound var; recompute precisely
		t.hasB = false
		bs := map[*Term]bool{}
		for _, b := range t.Bound {
			bs[b] = true
		}
		var fv func(x *Term) bool
		seen := map[*Term]bool{}
		fv = func(x *Term) bool {
			if !x.hasB {
				return false
			}
			if x.isBVar {
				return !bs[x]
			}
			if seen[x] {
				return false
			}
			seen[x] = true
			for _, a := range x.Args {
				if fv(a) {
					return true
				}
			}
			return false
		}
		for _, a := range t.Args {
			if fv(a) {
				t.hasB = true
			}
		}
	}
	termTab[k] = t
	return t
}

var True = intern(&Term{Op: "true", S: BoolSort})
var False = intern(&Term{Op: "false", S: BoolSort})

func mask(w int) *big.Int {
	m := new(big.Int).Lsh(big.NewInt(1), uint(w))
	return m.Sub(m, big.NewInt(1))
}

func BVConst(v *big.Int, w int) *Term {
	x := new(big.Int).And(v, mask(w)) // big.Int And on negative uses two's complement semantics
	return intern(&Term{Op: "const", Val: x, S: BV(w)})
}
func BVInt(v int64, w int) *Term { return BVConst(big.NewInt(v), w) }
func BoolConst(b bool) *Term {
	if b {
		return True
	}
	return False
}

var freshCtr = map[string]int{}

func FreshName(hint string) string {
	freshCtr[hint]++
	return fmt.Sprintf("%s!%d", hint, freshCtr[hint])
}
func Var(name string, s *Sort) *Term { return intern(&Term{Op: "var", Name: name, S: s}) }
func FreshVar(hint string, s *Sort) *Term {
	return Var(FreshName(hint), s)
}
func BoundVar(hint string, s *Sort, key string) *Term {
	t := intern(&Term{Op: "var", Name: FreshName("?" + hint), S: s, isBVar: true})
	t.Key = key
	return t
}

func (t *Term) IsConst() bool { return t.Op == "const" }
func (t *Term) signedVal() *big.Int {
	v := new(big.Int).Set(t.Val)
	if v.Bit(t.S.W-1) == 1 {
		v.Sub(v, new(big.Int).Lsh(big.NewInt(1), uint(t.S.W)))
	}
	return v
}

func App(name string, s *Sort, args ...*Term) *Term {
	return intern(&Term{Op: "app", Name: name, Args: args, S: s})
}

// Mark is an identity wrapper recording that the term is used in an index-like position
// (slice index, region of a heap read, argument of a spec function). It is erased when
// printing and only feeds the instantiation engine.
func Mark(t *Term, key string) *Term {
	if t.Op == "mark" && t.Name == key {
		return t
	}
	return intern(&Term{Op: "mark", Name: key, Args: []*Term{unmark(t)}, S: t.S})
}

func tyKey(ty *STy) string {
	switch ty.K {
	case TInt:
		if ty.Signed {
			return fmt.Sprintf("s%d", ty.W)
		}
		return fmt.Sprintf("u%d", ty.W)
	case TBool:
		return "bool"
	case TPtr:
		return "reg"
	case TIface:
		return "iface"
	}
	return "?"
}
func unmark(t *Term) *Term {
	for t.Op == "mark" {
		t = t.Args[0]
	}
	return t
}

func Not(a *Term) *Term {
	switch a.Op {
	case "true":
		return False
	case "false":
		return True
	case "not":
		return a.Args[0]
	}
	return intern(&Term{Op: "not", Args: []*Term{a}, S: BoolSort})
}
func And(as ...*Term) *Term {
	var out []*Term
	for _, a := range as {
		if a == True {
			continue
		}
		if a == False {
			return False
		}
		if a.Op == "and" {
			out = append(out, a.Args...)
		} else {
			out = append(out, a)
		}
	}
	if len(out) == 0 {
		return True
	}
	if len(out) == 1 {
		return out[0]
	}
	return intern(&Term{Op: "and", Args: out, S: BoolSort})
}
func Or(as ...*Term) *Term {
	var out []*Term
	for _, a := range as {
		if a == False {
			continue
		}
		if a == True {
			return True
		}
		if a.Op == "or" {
			out = append(out, a.Args...)
		} else {
			out = append(out, a)
		}
	}
	if len(out) == 0 {
		return False
	}
	if len(out) == 1 {
		return out[0]
	}
	return intern(&Term{Op: "or", Args: out, S: BoolSort})
}
func Implies(a, b *Term) *Term {
	if a == True {
		return b
	}
	if a == False || b == True {
		return True
	}
	if b == False {
		return Not(a)
	}
	return intern(&Term{Op: "=>", Args: []*Term{a, b}, S: BoolSort})
}
func Ite(c, a, b *Term) *Term {
	if c == True {
		return a
	}
	if c == False {
		return b
	}
	if a == b {
		return a
	}
	if a.S != b.S {
		panic(fmt.Sprintf("ite sort mismatch %s %s", a.S, b.S))
	}
	if a.S.IsBool() {
		if a == True && b == False {
			return c
		}
		if a == False && b == True {
			return Not(c)
		}
	}
	return intern(&Term{Op: "ite", Args: []*Term{c, a, b}, S: a.S})
}
func Eq(a, b *Term) *Term {
	if a.S != b.S {
		panic(fmt.Sprintf("eq sort mismatch %s vs %s: %s  /  %s", a.S, b.S, a, b))
	}
	ua, ub := unmark(a), unmark(b)
	if ua == ub {
		return True
	}
	if ua.IsConst() && ub.IsConst() {
		return BoolConst(ua.Val.Cmp(ub.Val) == 0)
	}
	if a.S.IsBool() {
		if a == True {
			return b
		}
		if b == True {
			return a
		}
		if a == False {
			return Not(b)
		}
		if b == False {
			return Not(a)
		}
	}
	if a.id > b.id {
		a, b = b, a
	}
	return intern(&Term{Op: "=", Args: []*Term{a, b}, S: BoolSort})
}

func Forall(vars []*Term, body *Term) *Term {
	if body == True {
		return True
	}
	if len(vars) == 0 {
		return body
	}
	return intern(&Term{Op: "forall", Bound: vars, Args: []*Term{body}, S: BoolSort})
}
func Exists(vars []*Term, body *Term) *Term {
	if body == False {
		return False
	}
	if len(vars) == 0 {
		return body
	}
	return intern(&Term{Op: "exists", Bound: vars, Args: []*Term{body}, S: BoolSort})
}

// ---- bit-vector operators ----

func toSigned(v *big.Int, w int) *big.Int {
	x := new(big.Int).Set(v)
	if x.Bit(w-1) == 1 {
		x.Sub(x, new(big.Int).Lsh(big.NewInt(1), uint(w)))
	}
	return x
}

func foldBin(op string, a, b *big.Int, w int) *big.Int {
	r := new(big.Int)
	switch op {
	case "bvadd":
		r.Add(a, b)
	case "bvsub":
		r.Sub(a, b)
	case "bvmul":
		r.Mul(a, b)
	case "bvand":
		r.And(a, b)
	case "bvor":
		r.Or(a, b)
	case "bvxor":
		r.Xor(a, b)
	case "bvshl":
		if b.Cmp(big.NewInt(int64(w))) >= 0 {
			return big.NewInt(0)
		}
		r.Lsh(a, uint(b.Int64()))
	case "bvlshr":
		if b.Cmp(big.NewInt(int64(w))) >= 0 {
			return big.NewInt(0)
		}
		r.Rsh(a, uint(b.Int64()))
	case "bvashr":
		sa := toSigned(a, w)
		if b.Cmp(big.NewInt(int64(w))) >= 0 {
			if sa.Sign() < 0 {
				return mask(w)
			}
			return big.NewInt(0)
		}
		r.Rsh(sa, uint(b.Int64()))
	case "bvudiv":
		if b.Sign() == 0 {
			return mask(w)
		}
		r.Quo(a, b)
	case "bvurem":
		if b.Sign() == 0 {
			return new(big.Int).Set(a)
		}
		r.Rem(a, b)
	case "bvsdiv":
		if b.Sign() == 0 {
			return nil
		}
		r.Quo(toSigned(a, w), toSigned(b, w))
	case "bvsrem":
		if b.Sign() == 0 {
			return nil
		}
		r.Rem(toSigned(a, w), toSigned(b, w))
	default:
		return nil
	}
	return r.And(r, mask(w))
}

func BVBin(op string, a, b *Term) *Term {
	if a.S != b.S || !a.S.IsBV() {
		panic(fmt.Sprintf("%s sort mismatch %s %s: %s / %s", op, a.S, b.S, a, b))
	}
	w := a.S.W
	ua, ub := unmark(a), unmark(b)
	if ua.IsConst() && ub.IsConst() {
		if r := foldBin(op, ua.Val, ub.Val, w); r != nil {
			if op == "bvadd" && (a.Op == "mark" || b.Op == "mark") {
				// offset + marked constant index: keep the result an instantiation candidate
				key := a.Name
				if b.Op == "mark" {
					key = b.Name
				}
				return Mark(BVConst(r, w), key)
			}
			return BVConst(r, w)
		}
	}
	isZero := func(t *Term) bool { return t.IsConst() && t.Val.Sign() == 0 }
	isOnes := func(t *Term) bool { return t.IsConst() && t.Val.Cmp(mask(w)) == 0 }
	switch op {
	case "bvadd", "bvor", "bvxor":
		// a marked zero (index 0 of a slice) is kept: it is an instantiation candidate
		if isZero(ua) && a.Op != "mark" {
			return b
		}
		if isZero(ub) && b.Op != "mark" {
			return a
		}
	case "bvsub", "bvshl", "bvlshr", "bvashr":
		if isZero(ub) {
			return a
		}
	case "bvand":
		if isZero(ua) || isZero(ub) {
			return BVInt(0, w)
		}
		if isOnes(ua) {
			return b
		}
		if isOnes(ub) {
			return a
		}
	case "bvmul":
		if isZero(ua) || isZero(ub) {
			return BVInt(0, w)
		}
		if ua.IsConst() && ua.Val.Cmp(big.NewInt(1)) == 0 {
			return b
		}
		if ub.IsConst() && ub.Val.Cmp(big.NewInt(1)) == 0 {
			return a
		}
	}
	return intern(&Term{Op: op, Args: []*Term{a, b}, S: a.S})
}
func BVNot(a *Term) *Term {
	if u := unmark(a); u.IsConst() {
		return BVConst(new(big.Int).Xor(u.Val, mask(a.S.W)), a.S.W)
	}
	return intern(&Term{Op: "bvnot", Args: []*Term{a}, S: a.S})
}
func BVNeg(a *Term) *Term {
	if u := unmark(a); u.IsConst() {
		return BVConst(new(big.Int).Neg(u.Val), a.S.W)
	}
	return intern(&Term{Op: "bvneg", Args: []*Term{a}, S: a.S})
}
func BVCmp(op string, a, b *Term) *Term { // bvult bvule bvslt bvsle (and g* variants)
	if a.S != b.S || !a.S.IsBV() {
		panic(fmt.Sprintf("%s sort mismatch %s %s: %s / %s", op, a.S, b.S, a, b))
	}
	switch op {
	case "bvugt":
		return BVCmp("bvult", b, a)
	case "bvuge":
		return BVCmp("bvule", b, a)
	case "bvsgt":
		return BVCmp("bvslt", b, a)
	case "bvsge":
		return BVCmp("bvsle", b, a)
	}
	ua, ub := unmark(a), unmark(b)
	if ua.IsConst() && ub.IsConst() {
		w := a.S.W
		var c int
		if op[2] == 's' {
			c = toSigned(ua.Val, w).Cmp(toSigned(ub.Val, w))
		} else {
			c = ua.Val.Cmp(ub.Val)
		}
		if op == "bvult" || op == "bvslt" {
			return BoolConst(c < 0)
		}
		return BoolConst(c <= 0)
	}
	if ua == ub {
		return BoolConst(op == "bvule" || op == "bvsle")
	}
	return intern(&Term{Op: op, Args: []*Term{a, b}, S: BoolSort})
}
func Extract(hi, lo int, a *Term) *Term {
	if lo == 0 && hi == a.S.W-1 {
		return a
	}
	u := unmark(a)
	if u.IsConst() {
		v := new(big.Int).Rsh(u.Val, uint(lo))
		return BVConst(v, hi-lo+1)
	}
	if (u.Op == "zero_extend" || u.Op == "sign_extend") && hi < u.Args[0].S.W {
		return Extract(hi, lo, u.Args[0])
	}
	return intern(&Term{Op: "extract", P1: hi, P2: lo, Args: []*Term{a}, S: BV(hi - lo + 1)})
}
func ZExt(a *Term, to int) *Term {
	if to == a.S.W {
		return a
	}
	if to < a.S.W {
		return Extract(to-1, 0, a)
	}
	if u := unmark(a); u.IsConst() {
		return BVConst(u.Val, to)
	}
	return intern(&Term{Op: "zero_extend", P1: to - a.S.W, Args: []*Term{a}, S: BV(to)})
}
func SExt(a *Term, to int) *Term {
	if to == a.S.W {
		return a
	}
	if to < a.S.W {
		return Extract(to-1, 0, a)
	}
	if u := unmark(a); u.IsConst() {
		return BVConst(toSigned(u.Val, a.S.W), to)
	}
	return intern(&Term{Op: "sign_extend", P1: to - a.S.W, Args: []*Term{a}, S: BV(to)})
}
func Concat(a, b *Term) *Term {
	return intern(&Term{Op: "concat", Args: []*Term{a, b}, S: BV(a.S.W + b.S.W)})
}

func Select(a, i *Term) *Term {
	if !a.S.IsArr() || a.S.Idx != i.S {
		panic(fmt.Sprintf("select sort mismatch %s [%s]", a.S, i.S))
	}
	ui := unmark(i)
	// read-over-write with syntactically decidable indices
	cur := a
	for cur.Op == "store" {
		si := unmark(cur.Args[1])
		if si == ui {
			return cur.Args[2]
		}
		if si.IsConst() && ui.IsConst() {
			cur = cur.Args[0]
			continue
		}
		break
	}
	if cur.Op == "constarr" {
		return cur.Args[0]
	}
	return intern(&Term{Op: "select", Args: []*Term{cur, i}, S: a.S.Elem})
}
func Store(a, i, v *Term) *Term {
	if !a.S.IsArr() || a.S.Idx != i.S || a.S.Elem != v.S {
		panic(fmt.Sprintf("store sort mismatch %s [%s] := %s", a.S, i.S, v.S))
	}
	if a.Op == "store" && unmark(a.Args[1]) == unmark(i) {
		a = a.Args[0]
	}
	return intern(&Term{Op: "store", Args: []*Term{a, i, v}, S: a.S})
}
func ConstArr(s *Sort, v *Term) *Term {
	return intern(&Term{Op: "constarr", Args: []*Term{v}, S: s})
}

// ---- substitution ----

func Subst(t *Term, m map[*Term]*Term) *Term {
	cache := map[*Term]*Term{}
	var rec func(x *Term) *Term
	rec = func(x *Term) *Term {
		if r, ok := m[x]; ok {
			return r
		}
		if len(x.Args) == 0 {
			return x
		}
		if r, ok := cache[x]; ok {
			return r
		}
		args := make([]*Term, len(x.Args))
		ch := false
		for i, a := range x.Args {
			args[i] = rec(a)
			if args[i] != a {
				ch = true
			}
		}
		r := x
		if ch {
			r = rebuild(x, args)
		}
		cache[x] = r
		return r
	}
	return rec(t)
}

// rebuild re-applies the smart constructors so that simplifications fire after substitution.
func rebuild(x *Term, args []*Term) *Term {
	switch x.Op {
	case "not":
		return Not(args[0])
	case "and":
		return And(args...)
	case "or":
		return Or(args...)
	case "=>":
		return Implies(args[0], args[1])
	case "ite":
		return Ite(args[0], args[1], args[2])
	case "=":
		return Eq(args[0], args[1])
	case "forall":
		return Forall(x.Bound, args[0])
	case "exists":
		return Exists(x.Bound, args[0])
	case "mark":
		return Mark(args[0], x.Name)
	case "bvnot":
		return BVNot(args[0])
	case "bvneg":
		return BVNeg(args[0])
	case "bvult", "bvule", "bvslt", "bvsle":
		return BVCmp(x.Op, args[0], args[1])
	case "extract":
		return Extract(x.P1, x.P2, args[0])
	case "zero_extend":
		return ZExt(args[0], x.S.W)
	case "sign_extend":
		return SExt(args[0], x.S.W)
	case "concat":
		return Concat(args[0], args[1])
	case "select":
		return Select(args[0], args[1])
	case "store":
		return Store(args[0], args[1], args[2])
	case "constarr":
		return ConstArr(x.S, args[0])
	case "app":
		return App(x.Name, x.S, args...)
	}
	if strings.HasPrefix(x.Op, "bv") {
		return BVBin(x.Op, args[0], args[1])
	}
	panic("rebuild: " + x.Op)
}

// ---- printing ----

func smtName(n string) string {
	ok := true
	for _, c := range n {
		if !(c >= 'a' && c <= 'z' || c >= 'A' && c <= 'Z' || c >= '0' && c <= '9' || c == '_' || c == '.' || c == '!' || c == '$' || c == '?') {
			ok = false
		}
	}
	if ok {
		return n
	}
	return "|" + n + "|"
}

type printer struct {
	names map[*Term]string
	sb    *strings.Builder
}

func (p *printer) str(t *Term) string {
	if n, ok := p.names[t]; ok {
		return n
	}
	switch t.Op {
	case "true", "false":
		return t.Op
	case "const":
		w := t.S.W
		if w%4 == 0 {
			return fmt.Sprintf("#x%0*s", w/4, t.Val.Text(16))
		}
		return fmt.Sprintf("#b%0*s", w, t.Val.Text(2))
	case "var":
		return smtName(t.Name)
	case "mark":
		return p.str(t.Args[0])
	case "app":
		if len(t.Args) == 0 {
			return smtName(t.Name)
		}
		var sb strings.Builder
		sb.WriteString("(" + smtName(t.Name))
		for _, a := range t.Args {
			sb.WriteString(" " + p.str(a))
		}
		sb.WriteString(")")
		return sb.String()
	case "extract":
		return fmt.Sprintf("((_ extract %d %d) %s)", t.P1, t.P2, p.str(t.Args[0]))
	case "zero_extend", "sign_extend":
		return fmt.Sprintf("((_ %s %d) %s)", t.Op, t.P1, p.str(t.Args[0]))
	case "constarr":
		return fmt.Sprintf("((as const %s) %s)", t.S, p.str(t.Args[0]))
	case "forall", "exists":
		var sb strings.Builder
		sb.WriteString("(" + t.Op + " (")
		for _, b := range t.Bound {
			fmt.Fprintf(&sb, "(%s %s)", smtName(b.Name), b.S)
		}
		sb.WriteString(") " + p.str(t.Args[0]) + ")")
		return sb.String()
	}
	var sb strings.Builder
	sb.WriteString("(" + t.Op)
	for _, a := range t.Args {
		sb.WriteString(" " + p.str(a))
	}
	sb.WriteString(")")
	return sb.String()
}

// PrintQuery renders assertions as an SMT-LIB2 script (declarations, shared subterms as
// define-funs, asserts, check-sat, get-model request for the named model vars).
func PrintQuery(asserts []*Term, modelVars []*Term, logic string, produceModels bool) string {
	var sb strings.Builder
	if produceModels {
		sb.WriteString("(set-option :produce-models true)\n")
	}
	if logic != "" {
		sb.WriteString("(set-logic " + logic + ")\n")
	}
	// collect
	ref := map[*Term]int{}
	var order []*Term
	decl := map[string]*Term{}
	sorts := map[string]bool{}
	var visit func(t *Term)
	visit = func(t *Term) {
		ref[t]++
		if ref[t] > 1 {
			return
		}
		for _, a := range t.Args {
			visit(a)
		}
		if t.Op == "var" && !t.isBVar {
			decl[t.Name] = t
		}
		if t.Op == "app" {
			decl["app:"+t.Name] = t
		}
		if t.S.K == KUnint {
			sorts[t.S.Name] = true
		}
		order = append(order, t)
	}
	for _, a := range asserts {
		visit(a)
	}
	for _, v := range modelVars {
		visit(v)
	}
	var sn []string
	for s := range sorts {
		sn = append(sn, s)
	}
	sort.Strings(sn)
	for _, s := range sn {
		fmt.Fprintf(&sb, "(declare-sort %s 0)\n", s)
	}
	var dn []string
	for n := range decl {
		dn = append(dn, n)
	}
	sort.Strings(dn)
	for _, n := range dn {
		t := decl[n]
		if t.Op == "var" {
			fmt.Fprintf(&sb, "(declare-fun %s () %s)\n", smtName(t.Name), t.S)
		} else {
			fmt.Fprintf(&sb, "(declare-fun %s (", smtName(t.Name))
			for i, a := range t.Args {
				if i > 0 {
					sb.WriteByte(' ')
				}
				sb.WriteString(a.S.String())
			}
			fmt.Fprintf(&sb, ") %s)\n", t.S)
		}
	}
	p := &printer{names: map[*Term]string{}, sb: &sb}
	n := 0
	for _, t := range order {
		if ref[t] > 1 && len(t.Args) > 0 && !t.hasB && t.Op != "mark" {
			s := p.str(t)
			n++
			nm := fmt.Sprintf("_t%d", n)
			fmt.Fprintf(&sb, "(define-fun %s () %s %s)\n", nm, t.S, s)
			p.names[t] = nm
		}
	}
	for _, a := range asserts {
		fmt.Fprintf(&sb, "(assert %s)\n", p.str(a))
	}
	sb.WriteString("(check-sat)\n")
	if produceModels && len(modelVars) > 0 {
		sb.WriteString("(get-value (")
		for _, v := range modelVars {
			sb.WriteString(p.str(v) + " ")
		}
		sb.WriteString("))\n")
	}
	return sb.String()
}

func (t *Term) String() string {
	p := &printer{names: map[*Term]string{}}
	s := p.str(t)
	if len(s) > 400 {
		s = s[:400] + "..."
	}
	return s
}
