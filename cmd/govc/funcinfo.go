package main

// Per-function static information: named cells, natural loops, loop ordinals, modified sets.

import (
	"fmt"
	"strings"
	"go/ast"
	"go/token"
	"sort"

	"golang.org/x/tools/go/ssa"
)

type Loop struct {
	Header  *ssa.BasicBlock
	Blocks  map[*ssa.BasicBlock]bool
	Ordinal int // 1-based, source order
	Pos     token.Pos
	BodyPos token.Pos // just inside the loop body: scope position for resolving names in invariants
}

type FuncInfo struct {
	Fn     *ssa.Function
	Spec   *FuncSpec
	Cells  map[string][]*ssa.Alloc
	Loops  map[*ssa.BasicBlock]*Loop
	NLoops int
	Key    string
}

var funcInfoCache = map[*ssa.Function]*FuncInfo{}

func (w *World) funcInfo(fn *ssa.Function) *FuncInfo {
	if fi, ok := funcInfoCache[fn]; ok {
		return fi
	}
	fi := &FuncInfo{Fn: fn, Cells: map[string][]*ssa.Alloc{}, Loops: map[*ssa.BasicBlock]*Loop{}, Key: funcKey(fn)}
	fi.Spec = w.FuncSpecs[fi.Key]
	for _, b := range fn.Blocks {
		for _, in := range b.Instrs {
			if a, ok := in.(*ssa.Alloc); ok && a.Comment != "" {
				fi.Cells[a.Comment] = append(fi.Cells[a.Comment], a)
			}
		}
	}
	// natural loops
	for _, b := range fn.Blocks {
		for _, s := range b.Succs {
			if s.Dominates(b) { // back edge b -> s
				lp := fi.Loops[s]
				if lp == nil {
					lp = &Loop{Header: s, Blocks: map[*ssa.BasicBlock]bool{s: true}}
					fi.Loops[s] = lp
				}
				// add nodes reaching b without passing s
				var stack []*ssa.BasicBlock
				if !lp.Blocks[b] {
					lp.Blocks[b] = true
					stack = append(stack, b)
				}
				for len(stack) > 0 {
					n := stack[len(stack)-1]
					stack = stack[:len(stack)-1]
					for _, p := range n.Preds {
						if !lp.Blocks[p] {
							lp.Blocks[p] = true
							stack = append(stack, p)
						}
					}
				}
			}
		}
	}
	// ordinals from the AST
	var astLoops []ast.Node
	var body ast.Node
	switch s := fn.Syntax().(type) {
	case *ast.FuncDecl:
		body = s.Body
	case *ast.FuncLit:
		body = s.Body
	}
	if body != nil {
		ast.Inspect(body, func(x ast.Node) bool {
			switch x.(type) {
			case *ast.FuncLit:
				return false
			case *ast.ForStmt, *ast.RangeStmt:
				astLoops = append(astLoops, x)
			}
			return true
		})
	}
	var lps []*Loop
	for _, lp := range fi.Loops {
		lps = append(lps, lp)
	}
	for _, lp := range lps {
		// smallest AST loop containing all positioned instructions of the loop
		best := -1
		for i, al := range astLoops {
			ok := true
			any := false
			for b := range lp.Blocks {
				for _, in := range b.Instrs {
					p := in.Pos()
					if !p.IsValid() {
						continue
					}
					any = true
					if p < al.Pos() || p >= al.End() {
						ok = false
					}
				}
			}
			if ok && any {
				if best < 0 || (al.End()-al.Pos()) < (astLoops[best].End()-astLoops[best].Pos()) {
					best = i
				}
			}
		}
		if best >= 0 {
			lp.Ordinal = best + 1
			lp.Pos = astLoops[best].Pos()
			switch s := astLoops[best].(type) {
			case *ast.ForStmt:
				lp.BodyPos = s.Body.Lbrace + 1
			case *ast.RangeStmt:
				lp.BodyPos = s.Body.Lbrace + 1
			}
		}
	}
	// fallback / collision handling: order by header index
	sort.Slice(lps, func(i, j int) bool { return lps[i].Header.Index < lps[j].Header.Index })
	used := map[int]bool{}
	bad := false
	for _, lp := range lps {
		if lp.Ordinal == 0 || used[lp.Ordinal] {
			bad = true
		}
		used[lp.Ordinal] = true
	}
	if bad || len(lps) != len(astLoops) {
		if len(lps) > 0 {
			w.errorf("%s: cannot match SSA loops (%d) to source loops (%d)", fi.Key, len(lps), len(astLoops))
		}
		for i, lp := range lps {
			lp.Ordinal = i + 1
		}
	}
	fi.NLoops = len(lps)
	funcInfoCache[fn] = fi
	return fi
}

// cellAt resolves a source name to its cell using the lexical scope at position pos.
func (w *World) cellAt(fi *FuncInfo, name string, pos token.Pos) (*ssa.Alloc, error) {
	if pos.IsValid() && !strings.Contains(name, "#") && len(fi.Cells[name]) > 1 {
		var pkgPath string
		if fi.Fn.Pkg != nil {
			pkgPath = fi.Fn.Pkg.Pkg.Path()
		} else if fi.Fn.Parent() != nil && fi.Fn.Parent().Pkg != nil {
			pkgPath = fi.Fn.Parent().Pkg.Pkg.Path()
		}
		if pp := w.PPkgs[pkgPath]; pp != nil && pp.Types != nil {
			if sc := pp.Types.Scope().Innermost(pos); sc != nil {
				if _, obj := sc.LookupParent(name, pos); obj != nil {
					for _, a := range fi.Cells[name] {
						if a.Pos() == obj.Pos() {
							return a, nil
						}
					}
				}
			}
		}
	}
	return fi.cell(name)
}

func (fi *FuncInfo) cell(name string) (*ssa.Alloc, error) {
	base, ord := name, 0
	for i := 0; i < len(name); i++ {
		if name[i] == '#' {
			base = name[:i]
			fmt.Sscanf(name[i+1:], "%d", &ord)
		}
	}
	cs := fi.Cells[base]
	if len(cs) == 0 {
		return nil, nil
	}
	if ord == 0 {
		if len(cs) > 1 {
			return nil, fmt.Errorf("%s: name %q is ambiguous (%d variables); use %s#k", fi.Key, base, len(cs), base)
		}
		return cs[0], nil
	}
	if ord > len(cs) {
		return nil, fmt.Errorf("%s: no %s#%d", fi.Key, base, ord)
	}
	return cs[ord-1], nil
}
