package main

// Source of the replay driver: an in-package test injected through `go test -overlay`.
// It is generic (reflect-based); only the function table at the end is generated.

const driverTemplate = `package PKGNAME

import (
	"bytes"
	"encoding/json"
	"errors"
	"fmt"
	"io"
	"math/rand"
	"os"
	"reflect"
	"sort"
	"strconv"
	"testing"
	"unsafe"
)

// ---- models for interface-typed parameters (byte streams, writers, legacy protobuf messages) ----
// They implement the stream model of /verif/speclib/06_stream.spec: a reader delivers a fixed byte
// sequence in arbitrary chunks and then fails with a sticky error; a writer accepts a limited
// number of bytes and then fails; a message has a fixed encoding. Every observable call is logged.

var verifSeq int
var verifInjected = errors.New("verif: injected failure")
var verifInjected2 = errors.New("verif: injected marshal failure")
var _ = io.EOF
var _ = bytes.NewReader

type verifCall struct {
	Seq int
	P   []byte
	Off int64
	N   int
	Err error
}

type verifReader struct {
	Data  []byte
	Pos   int
	Fail  error
	Chunk int
	Eager bool
}

func (r *verifReader) Read(p []byte) (int, error) {
	if r.Pos >= len(r.Data) {
		return 0, r.Fail
	}
	n := len(p)
	if n > r.Chunk {
		n = r.Chunk
	}
	if n > len(r.Data)-r.Pos {
		n = len(r.Data) - r.Pos
	}
	copy(p, r.Data[r.Pos:r.Pos+n])
	r.Pos += n
	if r.Eager && r.Pos >= len(r.Data) && n > 0 {
		return n, r.Fail
	}
	return n, nil
}

type verifWriter struct {
	Limit int
	Fail  error
	Got   int
	Calls []verifCall
}

func (w *verifWriter) accept(p []byte, off int64) (int, error) {
	n := len(p)
	var err error
	if n > w.Limit-w.Got {
		n = w.Limit - w.Got
		err = w.Fail
	}
	w.Got += n
	verifSeq++
	w.Calls = append(w.Calls, verifCall{Seq: verifSeq, P: append([]byte(nil), p...), Off: off, N: n, Err: err})
	return n, err
}
func (w *verifWriter) Write(p []byte) (int, error)              { return w.accept(p, 0) }
func (w *verifWriter) WriteAt(p []byte, off int64) (int, error) { return w.accept(p, off) }

type verifMsg struct {
	Body  []byte
	MErr  error
	UErr  error
	Calls []verifCall
}

func (m *verifMsg) Reset()         {}
func (m *verifMsg) String() string { return "verifMsg" }
func (m *verifMsg) ProtoMessage()  {}
func (m *verifMsg) Marshal() ([]byte, error) {
	if m.MErr != nil {
		return nil, m.MErr
	}
	return append([]byte(nil), m.Body...), nil
}
func (m *verifMsg) Unmarshal(b []byte) error {
	verifSeq++
	m.Calls = append(m.Calls, verifCall{Seq: verifSeq, P: append([]byte(nil), b...), Err: m.UErr})
	return m.UErr
}

type verifVMsg struct {
	verifMsg
	Ver string
}

func (m *verifVMsg) GetVersion() string { return m.Ver }

func verifBytes(r *rand.Rand, n int) []byte {
	b := make([]byte, n)
	for i := range b {
		switch r.Intn(4) {
		case 0:
			b[i] = 0
		case 1:
			b[i] = byte(32 + r.Intn(90))
		default:
			b[i] = byte(r.Intn(256))
		}
	}
	return b
}

// verifFrameish: bytes that often look like a pbcmpl frame (32-byte header with plausible or
// extreme size fields) so that stream consumers get past their header checks
func verifFrameish(r *rand.Rand) []byte {
	n := r.Intn(80)
	b := verifBytes(r, n)
	if n >= 32 && r.Intn(4) != 0 {
		le := func(o int, v uint64) {
			for i := 0; i < 8; i++ {
				b[o+i] = byte(v >> uint(8*i))
			}
		}
		if r.Intn(3) != 0 {
			for i := 5 + r.Intn(11); i < 16; i++ {
				b[i] = 0
			}
		}
		if r.Intn(8) != 0 {
			le(16, 32)
		}
		switch r.Intn(8) {
		case 0:
			le(24, 1<<63)
		case 1:
			le(24, ^uint64(0))
		case 2:
			le(24, 1<<62+uint64(r.Intn(5)))
		case 3:
			le(24, uint64(r.Intn(1<<22)))
		default:
			le(24, uint64(r.Intn(n-32+6)))
		}
	}
	return b
}

func verifModelFor(t reflect.Type, r *rand.Rand) (reflect.Value, bool) {
	fail := func() error {
		if r.Intn(3) == 0 {
			return verifInjected
		}
		return io.EOF
	}
	var cands []interface{}
	rd := &verifReader{Data: verifFrameish(r), Fail: fail(), Chunk: 1 + r.Intn(40), Eager: r.Intn(3) == 0}
	if r.Intn(4) == 0 {
		rd.Pos = r.Intn(len(rd.Data) + 1)
	}
	wr := &verifWriter{Limit: r.Intn(120), Fail: verifInjected}
	if r.Intn(2) == 0 {
		wr.Limit = 1 << 30
	}
	msg := &verifMsg{Body: verifBytes(r, r.Intn(40))}
	if r.Intn(6) == 0 {
		msg.MErr = verifInjected2
	}
	if r.Intn(4) == 0 {
		msg.UErr = verifInjected
	}
	vm := &verifVMsg{verifMsg: *msg, Ver: string(verifBytes(r, r.Intn(17)))}
	if r.Intn(3) == 0 {
		vm.Ver = []string{"", "1.0.0", "1.2.3", "0123456789abcdef", "a\x00"}[r.Intn(5)]
	}
	cands = append(cands, rd, wr, msg, vm)
	r.Shuffle(len(cands), func(i, j int) { cands[i], cands[j] = cands[j], cands[i] })
	for _, c := range cands {
		if reflect.TypeOf(c).Implements(t) {
			return reflect.ValueOf(c), true
		}
	}
	return reflect.Value{}, false
}

var verifErrNames map[string]error

func verifErrDump(e error) interface{} {
	name := func(x error) string {
		for n, v := range verifErrNames {
			if v == x {
				return n
			}
		}
		switch x {
		case verifInjected:
			return "verif.injected"
		case verifInjected2:
			return "verif.injected2"
		}
		return ""
	}
	c := e
	for c != nil {
		cc, ok := c.(interface{ Cause() error })
		if !ok {
			break
		}
		c = cc.Cause()
	}
	m := map[string]interface{}{"err": name(e), "text": e.Error()}
	if c != nil {
		m["cause"] = name(c)
	}
	return m
}

func verifCallsDump(cs []verifCall) []interface{} {
	out := []interface{}{}
	for _, c := range cs {
		m := map[string]interface{}{"seq": c.Seq, "p": verifDump(reflect.ValueOf(c.P)), "off": strconv.FormatInt(c.Off, 10), "n": strconv.Itoa(c.N)}
		if c.Err != nil {
			m["err"] = verifErrDump(c.Err)
		}
		out = append(out, m)
	}
	return out
}

func verifModelDump(x interface{}) (map[string]interface{}, bool) {
	ed := func(e error) interface{} {
		if e == nil {
			return nil
		}
		return verifErrDump(e)
	}
	switch m := x.(type) {
	case *verifReader:
		return map[string]interface{}{"model": "reader", "data": verifDump(reflect.ValueOf(m.Data)), "pos": strconv.Itoa(m.Pos), "fail": ed(m.Fail), "chunk": m.Chunk, "eager": m.Eager}, true
	case *verifWriter:
		return map[string]interface{}{"model": "writer", "limit": m.Limit, "fail": ed(m.Fail), "calls": verifCallsDump(m.Calls)}, true
	case *verifMsg:
		return map[string]interface{}{"model": "msg", "body": verifDump(reflect.ValueOf(m.Body)), "merr": ed(m.MErr), "uerr": ed(m.UErr), "calls": verifCallsDump(m.Calls)}, true
	case *verifVMsg:
		return map[string]interface{}{"model": "vmsg", "body": verifDump(reflect.ValueOf(m.Body)), "merr": ed(m.MErr), "uerr": ed(m.UErr), "ver": verifDump(reflect.ValueOf(m.Ver)), "calls": verifCallsDump(m.Calls)}, true
	}
	return nil, false
}

type verifFn struct {
	F   interface{}
	Gen func(a []reflect.Value, r *rand.Rand)
}

var verifInts = []int64{-1, 0, 1, 2, 3, 5, 7, 8, 9, 15, 16, 17, 31, 32, 33, 63, 64, 65, 100, 127, 128, 129, 191, 192, 255, 256}

func verifRandInt(r *rand.Rand, bits int, signed bool, scale int64) int64 {
	switch r.Intn(10) {
	case 0, 1, 2, 3:
		v := verifInts[r.Intn(len(verifInts))]
		if !signed && v < 0 {
			v = 0
		}
		return v
	case 4, 5:
		if scale > 0 {
			return r.Int63n(scale + 2)
		}
		return r.Int63n(70)
	case 6:
		if scale > 0 {
			return scale - int64(r.Intn(3))
		}
		return r.Int63n(300)
	case 7:
		return r.Int63n(1 << 12)
	case 8:
		if scale < 0 {
			return r.Int63n(200)
		}
		v := int64(r.Uint64())
		if bits < 64 {
			v = v >> uint(64-bits)
		}
		if !signed && bits < 64 && v < 0 {
			v = -v
		}
		return v
	default:
		return r.Int63n(10)
	}
}

var verifWords = []uint64{0, ^uint64(0), 1, 1 << 63, 0x8000000000000001, 0xffffffff, 0xffffffff00000000, 0x5555555555555555, 0xff, 0xff00}

func verifRandWord(r *rand.Rand) uint64 {
	switch r.Intn(6) {
	case 0, 1:
		return verifWords[r.Intn(len(verifWords))]
	case 2:
		return r.Uint64() & r.Uint64() & r.Uint64()
	case 3:
		return r.Uint64() | r.Uint64() | r.Uint64()
	case 4:
		if r.Intn(2) == 0 {
			return ^uint64(0) &^ (uint64(1) << uint(r.Intn(64)))
		}
		return uint64(1) << uint(r.Intn(64))
	default:
		return r.Uint64()
	}
}

func verifRandValue(t reflect.Type, r *rand.Rand, scale int64, depth int) reflect.Value {
	v := reflect.New(t).Elem()
	switch t.Kind() {
	case reflect.Bool:
		v.SetBool(r.Intn(2) == 0)
	case reflect.Int, reflect.Int8, reflect.Int16, reflect.Int32, reflect.Int64:
		x := verifRandInt(r, t.Bits(), true, scale)
		if t.Bits() < 64 {
			x = x << uint(64-t.Bits()) >> uint(64-t.Bits())
		}
		v.SetInt(x)
	case reflect.Uint, reflect.Uint16, reflect.Uint32, reflect.Uint64, reflect.Uintptr:
		if t.Bits() == 64 {
			if r.Intn(2) == 0 {
				v.SetUint(verifRandWord(r))
			} else {
				v.SetUint(uint64(verifRandInt(r, 64, false, scale)))
			}
		} else {
			v.SetUint(uint64(verifRandInt(r, t.Bits(), false, scale)) & (1<<uint(t.Bits()) - 1))
		}
	case reflect.Uint8:
		bs := []uint8{0, 0xff, 0x80, 1, 'a', 'b', 0x7f, 0x55}
		if r.Intn(2) == 0 {
			v.SetUint(uint64(bs[r.Intn(len(bs))]))
		} else {
			v.SetUint(uint64(r.Intn(256)))
		}
	case reflect.String:
		n := r.Intn(6)
		if r.Intn(4) == 0 {
			n = r.Intn(20)
		}
		b := make([]byte, n)
		for i := range b {
			b[i] = byte(verifRandValue(reflect.TypeOf(uint8(0)), r, 0, depth+1).Uint())
		}
		v.SetString(string(b))
	case reflect.Slice:
		n := r.Intn(5)
		if r.Intn(5) == 0 {
			n = r.Intn(12)
		}
		if depth > 0 && n > 3 {
			n = 3
		}
		s := reflect.MakeSlice(t, n, n+r.Intn(3))
		if s.Cap() > n && depth == 0 {
			full := s.Slice(0, s.Cap())
			for i := n; i < s.Cap(); i++ {
				full.Index(i).Set(verifRandValue(t.Elem(), r, -1, depth+1))
			}
		}
		for i := 0; i < n; i++ {
			es := scale
			if t.Elem().Kind() == reflect.Int32 && r.Intn(8) != 0 {
				es = -1 // keep positions small: huge positions only allocate huge outputs
			}
			s.Index(i).Set(verifRandValue(t.Elem(), r, es, depth+1))
		}
		// integer slices are often required to be ascending
		if (t.Elem().Kind() == reflect.Int32 || t.Elem().Kind() == reflect.String) && r.Intn(4) != 0 {
			sort.Slice(s.Interface(), func(i, j int) bool {
				if t.Elem().Kind() == reflect.String {
					return s.Index(i).String() < s.Index(j).String()
				}
				return s.Index(i).Int() < s.Index(j).Int()
			})
		}
		v.Set(s)
	case reflect.Ptr:
		p := reflect.New(t.Elem())
		if t.Elem().Kind() == reflect.Struct {
			for i := 0; i < t.Elem().NumField(); i++ {
				f := p.Elem().Field(i)
				f = reflect.NewAt(f.Type(), unsafe.Pointer(f.UnsafeAddr())).Elem()
				switch f.Kind() {
				case reflect.Interface, reflect.Func, reflect.Chan, reflect.Map:
					continue
				}
				f.Set(verifRandValue(f.Type(), r, scale, depth+1))
			}
		}
		v.Set(p)
	case reflect.Array:
		for i := 0; i < t.Len(); i++ {
			v.Index(i).Set(verifRandValue(t.Elem(), r, scale, depth+1))
		}
	case reflect.Interface:
		if t.NumMethod() > 0 && depth == 0 {
			if m, ok := verifModelFor(t, r); ok {
				return m // kept as the model pointer (assignable to the interface parameter)
			}
		}
	}
	return v
}

func verifCopy(v reflect.Value) reflect.Value {
	switch v.Kind() {
	case reflect.Slice:
		if v.IsNil() {
			return v
		}
		c := reflect.MakeSlice(v.Type(), v.Len(), v.Cap())
		for i := 0; i < v.Len(); i++ {
			c.Index(i).Set(verifCopy(v.Index(i)))
		}
		if v.Cap() > v.Len() {
			full, cf := v.Slice(0, v.Cap()), c.Slice(0, v.Cap())
			for i := v.Len(); i < v.Cap(); i++ {
				cf.Index(i).Set(verifCopy(full.Index(i)))
			}
		}
		return c
	case reflect.Ptr:
		if v.IsNil() {
			return v
		}
		c := reflect.New(v.Type().Elem())
		if v.Elem().Kind() == reflect.Struct {
			for i := 0; i < v.Elem().NumField(); i++ {
				sf := v.Elem().Field(i)
				sf = reflect.NewAt(sf.Type(), unsafe.Pointer(sf.UnsafeAddr())).Elem()
				df := c.Elem().Field(i)
				df = reflect.NewAt(df.Type(), unsafe.Pointer(df.UnsafeAddr())).Elem()
				df.Set(verifCopy(sf))
			}
		} else {
			c.Elem().Set(verifCopy(v.Elem()))
		}
		return c
	case reflect.Struct:
		c := reflect.New(v.Type()).Elem()
		c.Set(v)
		for i := 0; i < v.NumField(); i++ {
			if !v.Field(i).CanInterface() && !v.Field(i).CanAddr() {
				continue
			}
			if c.Field(i).CanSet() {
				c.Field(i).Set(verifCopy(v.Field(i)))
			}
		}
		return c
	}
	return v
}

func verifDump(v reflect.Value) interface{} {
	switch v.Kind() {
	case reflect.Bool:
		return v.Bool()
	case reflect.Int, reflect.Int8, reflect.Int16, reflect.Int32, reflect.Int64:
		return strconv.FormatInt(v.Int(), 10)
	case reflect.Uint, reflect.Uint8, reflect.Uint16, reflect.Uint32, reflect.Uint64, reflect.Uintptr:
		return strconv.FormatUint(v.Uint(), 10)
	case reflect.String:
		b := []byte(v.String())
		out := make([]interface{}, len(b))
		for i, c := range b {
			out[i] = strconv.Itoa(int(c))
		}
		return map[string]interface{}{"str": out}
	case reflect.Slice, reflect.Array:
		if v.Len() > 4096 {
			return map[string]interface{}{"huge": v.Len()}
		}
		out := make([]interface{}, v.Len())
		for i := 0; i < v.Len(); i++ {
			out[i] = verifDump(v.Index(i))
		}
		if v.Kind() == reflect.Slice {
			m := map[string]interface{}{"slice": out, "cap": v.Cap(), "nil": v.IsNil()}
			// the spare capacity behind the slice is caller-visible memory too
			if v.Cap() > v.Len() && v.Cap()-v.Len() <= 64 {
				full := v.Slice(0, v.Cap())
				tail := make([]interface{}, 0, v.Cap()-v.Len())
				for i := v.Len(); i < v.Cap(); i++ {
					tail = append(tail, verifDump(full.Index(i)))
				}
				m["tail"] = tail
			}
			return m
		}
		return map[string]interface{}{"slice": out, "cap": v.Len()}
	case reflect.Ptr:
		if v.IsNil() {
			return nil
		}
		if v.CanInterface() {
			if md, ok := verifModelDump(v.Interface()); ok {
				return md
			}
		}
		if v.Elem().Kind() == reflect.Struct {
			m := map[string]interface{}{}
			for i := 0; i < v.Elem().NumField(); i++ {
				f := v.Elem().Field(i)
				f = reflect.NewAt(f.Type(), unsafe.Pointer(f.UnsafeAddr())).Elem()
				switch f.Kind() {
				case reflect.Interface, reflect.Func, reflect.Chan, reflect.Map:
					continue
				}
				m[v.Elem().Type().Field(i).Name] = verifDump(f)
			}
			return map[string]interface{}{"struct": m}
		}
	case reflect.Interface:
		if v.IsNil() {
			return nil
		}
		if e, ok := v.Interface().(error); ok {
			return verifErrDump(e)
		}
		if md, ok := verifModelDump(v.Interface()); ok {
			return md
		}
		if v.Elem().Kind() == reflect.Ptr && v.Elem().Elem().Kind() == reflect.Struct {
			return map[string]interface{}{"dyn": verifDump(v.Elem())}
		}
		return fmt.Sprint(v.Interface())
	}
	return fmt.Sprint(v.Interface())
}

func verifParseErr(j interface{}) error {
	m, ok := j.(map[string]interface{})
	if !ok {
		return nil
	}
	n, _ := m["err"].(string)
	if e, ok := verifErrNames[n]; ok {
		return e
	}
	if n == "verif.injected2" {
		return verifInjected2
	}
	return verifInjected
}

func verifParseBytes(j interface{}) []byte {
	v, ok := verifParse(reflect.TypeOf([]byte(nil)), j)
	if !ok {
		if s, ok := verifParse(reflect.TypeOf(""), j); ok {
			return []byte(s.String())
		}
		return nil
	}
	return v.Bytes()
}

// verifParseModel rebuilds an interface model from its dump (replay of a recorded input)
func verifParseModel(t reflect.Type, m map[string]interface{}) (reflect.Value, bool) {
	num := func(j interface{}) int {
		switch x := j.(type) {
		case float64:
			return int(x)
		case string:
			n, _ := strconv.Atoi(x)
			return n
		}
		return 0
	}
	var x interface{}
	switch m["model"] {
	case "reader":
		eager, _ := m["eager"].(bool)
		x = &verifReader{Data: verifParseBytes(m["data"]), Pos: num(m["pos"]), Fail: verifParseErr(m["fail"]), Chunk: num(m["chunk"]), Eager: eager}
	case "writer":
		x = &verifWriter{Limit: num(m["limit"]), Fail: verifParseErr(m["fail"])}
	case "msg":
		x = &verifMsg{Body: verifParseBytes(m["body"]), MErr: verifParseErr(m["merr"]), UErr: verifParseErr(m["uerr"])}
	case "vmsg":
		x = &verifVMsg{verifMsg: verifMsg{Body: verifParseBytes(m["body"]), MErr: verifParseErr(m["merr"]), UErr: verifParseErr(m["uerr"])}, Ver: string(verifParseBytes(m["ver"]))}
	default:
		return reflect.Value{}, false
	}
	if !reflect.TypeOf(x).Implements(t) {
		return reflect.Value{}, false
	}
	return reflect.ValueOf(x), true
}

func verifParse(t reflect.Type, j interface{}) (reflect.Value, bool) {
	v := reflect.New(t).Elem()
	switch t.Kind() {
	case reflect.Interface:
		if m, ok := j.(map[string]interface{}); ok && m["model"] != nil {
			return verifParseModel(t, m)
		}
		return v, false
	case reflect.Bool:
		b, ok := j.(bool)
		v.SetBool(b)
		return v, ok
	case reflect.Int, reflect.Int8, reflect.Int16, reflect.Int32, reflect.Int64:
		s, ok := j.(string)
		if !ok {
			return v, false
		}
		x, err := strconv.ParseInt(s, 10, 64)
		v.SetInt(x)
		return v, err == nil
	case reflect.Uint, reflect.Uint8, reflect.Uint16, reflect.Uint32, reflect.Uint64, reflect.Uintptr:
		s, ok := j.(string)
		if !ok {
			return v, false
		}
		x, err := strconv.ParseUint(s, 10, 64)
		v.SetUint(x)
		return v, err == nil
	case reflect.String:
		m, ok := j.(map[string]interface{})
		if !ok {
			return v, false
		}
		l, _ := m["str"].([]interface{})
		b := make([]byte, len(l))
		for i := range l {
			s, _ := l[i].(string)
			x, _ := strconv.Atoi(s)
			b[i] = byte(x)
		}
		v.SetString(string(b))
		return v, true
	case reflect.Slice:
		m, ok := j.(map[string]interface{})
		if !ok {
			return v, false
		}
		l, _ := m["slice"].([]interface{})
		s := reflect.MakeSlice(t, len(l), len(l))
		for i := range l {
			e, ok := verifParse(t.Elem(), l[i])
			if !ok {
				return v, false
			}
			s.Index(i).Set(e)
		}
		v.Set(s)
		return v, true
	case reflect.Ptr:
		m, ok := j.(map[string]interface{})
		if !ok || t.Elem().Kind() != reflect.Struct {
			return v, false
		}
		fs, _ := m["struct"].(map[string]interface{})
		p := reflect.New(t.Elem())
		for i := 0; i < t.Elem().NumField(); i++ {
			f := p.Elem().Field(i)
			f = reflect.NewAt(f.Type(), unsafe.Pointer(f.UnsafeAddr())).Elem()
			if fj, ok := fs[t.Elem().Field(i).Name]; ok {
				fv, ok := verifParse(f.Type(), fj)
				if !ok {
					return v, false
				}
				f.Set(fv)
			}
		}
		v.Set(p)
		return v, true
	}
	return v, false
}

func TestVerifReplay(t *testing.T) {
	name := os.Getenv("VERIF_FUNC")
	fn, ok := verifFuncs[name]
	if !ok {
		t.Fatalf("no function %q in the replay table", name)
	}
	n, _ := strconv.Atoi(os.Getenv("VERIF_N"))
	seed, _ := strconv.ParseInt(os.Getenv("VERIF_SEED"), 10, 64)
	r := rand.New(rand.NewSource(seed))
	fv := reflect.ValueOf(fn.F)
	ft := fv.Type()
	out, err := os.Create(os.Getenv("VERIF_OUT"))
	if err != nil {
		t.Fatal(err)
	}
	defer out.Close()
	enc := json.NewEncoder(out)
	var fixed []interface{}
	if p := os.Getenv("VERIF_INPUTS"); p != "" {
		b, err := os.ReadFile(p)
		if err == nil {
			json.Unmarshal(b, &fixed)
		}
	}
	for it := 0; it < n+len(fixed); it++ {
		args := make([]reflect.Value, ft.NumIn())
		okIn := true
		if it < len(fixed) {
			l, _ := fixed[it].([]interface{})
			if len(l) != ft.NumIn() {
				continue
			}
			for i := range args {
				args[i], okIn = verifParse(ft.In(i), l[i])
				if !okIn {
					break
				}
			}
			if !okIn {
				continue
			}
		} else {
			scale := int64(0)
			for i := range args {
				args[i] = verifRandValue(ft.In(i), r, scale, 0)
				if args[i].Kind() == reflect.Slice && args[i].Type().Elem().Kind() == reflect.Uint64 {
					scale = int64(args[i].Len()) * 64
				}
				if args[i].Kind() == reflect.String {
					scale = int64(args[i].Len()) * 8
				}
			}
			// second pass so that integers can use the scale of later slices too
			for i := range args {
				k := args[i].Kind()
				if (k == reflect.Int32 || k == reflect.Int || k == reflect.Int64) && r.Intn(2) == 0 {
					args[i] = verifRandValue(ft.In(i), r, scale, 0)
				}
			}
			if fn.Gen != nil {
				func() {
					defer func() { recover() }()
					fn.Gen(args, r)
				}()
			}
		}
		rec := map[string]interface{}{}
		ins := make([]interface{}, len(args))
		for i := range args {
			ins[i] = verifDump(args[i])
		}
		rec["in"] = ins
		call := make([]reflect.Value, len(args))
		for i := range args {
			call[i] = verifCopy(args[i])
		}
		func() {
			defer func() {
				if p := recover(); p != nil {
					rec["panic"] = fmt.Sprint(p)
				}
			}()
			var res []reflect.Value
			if ft.IsVariadic() {
				res = fv.CallSlice(call)
			} else {
				res = fv.Call(call)
			}
			outs := make([]interface{}, len(res))
			for i := range res {
				outs[i] = verifDump(res[i])
			}
			rec["out"] = outs
		}()
		post := make([]interface{}, len(call))
		for i := range call {
			post[i] = verifDump(call[i])
		}
		rec["post"] = post
		enc.Encode(rec)
	}
}

var verifFuncs = map[string]verifFn{
FUNCTABLE
}
`
