package main

// Calls (builtins, contracts, inlining, externals), loops, and function-level verification.

import (
	"fmt"
	"go/token"
	"go/types"
	"sort"
	"strings"

	"golang.org/x/tools/go/ssa"
)

// ---------- block running with continuations ----------

func (x *Exec) runFrom(st *State, b *ssa.BasicBlock, start int, prev *ssa.BasicBlock, fr *frame) {
	for k := start; k < len(b.Instrs); k++ {
		in := b.Instrs[k]
		switch i := in.(type) {
		case *ssa.If:
			c := asScalar(x.val(st, i.Cond)).T
			if c == True {
				x.enterBlock(st, b.Succs[0], b, fr)
				return
			}
			if c == False {
				x.enterBlock(st, b.Succs[1], b, fr)
				return
			}
			x.paths++
			if x.paths > maxPaths {
				vfail("path explosion (> %d paths)", maxPaths)
			}
			s2 := st.clone()
			st.assume(c)
			st.path = append(st.path, "T")
			x.enterBlock(st, b.Succs[0], b, fr)
			s2.assume(Not(c))
			s2.path = append(s2.path, "F")
			x.enterBlock(s2, b.Succs[1], b, fr)
			return
		case *ssa.Jump:
			x.enterBlock(st, b.Succs[0], b, fr)
			return
		case *ssa.Return:
			var rs []Value
			for _, r := range i.Results {
				rs = append(rs, x.val(st, r))
			}
			st.retTag = instrOrd(i)
			fr.ret(st, rs)
			return
		case *ssa.Panic:
			x.oblige(st, "nopanic", instrOrd(i), "explicit panic is unreachable", i.Pos(), False)
			return
		case *ssa.Phi:
			found := false
			for j, p := range b.Preds {
				if p == prev {
					st.regs[i] = x.val(st, i.Edges[j])
					found = true
				}
			}
			if !found {
				vfail("phi without matching predecessor")
			}
		case *ssa.Call:
			kk := k
			x.call(st, i, fr, func(s2 *State) { x.runFrom(s2, b, kk+1, prev, fr) })
			return
		default:
			x.step(st, in, fr)
			if st.dead {
				return
			}
		}
	}
}

func (x *Exec) enterBlock(st *State, b *ssa.BasicBlock, prev *ssa.BasicBlock, fr *frame) {
	if lp := fr.fi.Loops[b]; lp != nil {
		if prev != nil && lp.Blocks[prev] {
			x.checkInvariants(st, fr, lp, "preserved")
			co := &Obligation{Name: fmt.Sprintf("%s/cover-loop%d-body%s", x.top.Key, lp.Ordinal, suffixFn(fr, x)), Path: strings.Join(st.path, ""), Func: x.top.Key, Kind: "cover", Hyps: append([]*Term(nil), st.hyps...), Goal: False, Cover: true, Hints: x.hints, Text: "loop body end reachable"}
			x.W.Obls = append(x.W.Obls, co)
			return
		}
		x.checkInvariants(st, fr, lp, "entry")
		x.havocLoop(st, fr, lp)
		if st.dead {
			return
		}
	}
	x.runFrom(st, b, 0, prev, fr)
}

// ---------- contract environments ----------

// funcEnv builds the evaluation environment for clauses of fi's contract.
// mode: "pre" (params = args), "post" (params = entry values, results bound), "inv" (names = current cells)
// applyDynType: "dyntype r *T" declares that the interface result r, when non-nil, holds a *T;
// a plain interface value (e.g. the nil returned on an error path) is then viewed as a (nil) *T
// so that clauses like "n == 32 ==> r.f == ..." can be evaluated on every path.
func (x *Exec) applyDynType(fi *FuncInfo, name string, v Value) Value {
	s, ok := v.(VScalar)
	if !ok || s.Ty.K != TIface || fi.Spec == nil || fi.Fn.Pkg == nil {
		return v
	}
	for _, c := range fi.Spec.Clauses {
		if c.Kind != "dyntype" {
			continue
		}
		f := strings.Fields(c.Text)
		if len(f) == 2 && f[0] == name {
			if tm, ok := fi.Fn.Pkg.Members[strings.TrimPrefix(f[1], "*")].(*ssa.Type); ok {
				if named, ok := tm.Type().(*types.Named); ok {
					return VIfaceObj{Obj: PObj{s.T, &STy{K: TPtr, Named: named}}, Ty: s.Ty}
				}
			}
		}
	}
	return v
}

func (x *Exec) funcEnv(fi *FuncInfo, mode string, cur, old *State, args []Value, results []Value) *Env {
	fn := fi.Fn
	paramIdx := map[string]int{}
	for i, p := range fn.Params {
		paramIdx[p.Name()] = i
	}
	resIdx := map[string]int{}
	if fi.Spec != nil {
		for i, r := range fi.Spec.Results {
			resIdx[r] = i
		}
	}
	if fn.Signature.Results() != nil {
		for i := 0; i < fn.Signature.Results().Len(); i++ {
			if n := fn.Signature.Results().At(i).Name(); n != "" && n != "_" {
				if _, ok := resIdx[n]; !ok {
					resIdx[n] = i
				}
			}
		}
	}
	ev := &Env{W: x.W, st: cur, old: old, pkg: fn.Pkg, bound: map[string]SVal{}}
	if fn.Pkg == nil && fn.Parent() != nil {
		ev.pkg = fn.Parent().Pkg
	}
	ev.lookup = func(name string, st *State, isOld bool) (Value, bool) {
		if mode == "inv" && !isOld {
			if name == "rangeindex" && x.invLoop != nil {
				// the hidden counter of the range loop the invariant belongs to
				for _, a := range fi.Cells["rangeindex"] {
					for _, ref := range *a.Referrers() {
						if s, ok := ref.(*ssa.Store); ok && s.Addr == a && s.Block() == x.invLoop.Header {
							if v, ok := st.cells[a]; ok {
								return v, true
							}
						}
					}
				}
			}
			if a, err := x.W.cellAt(fi, name, x.invPos); err != nil {
				sfail("%v", err)
			} else if a != nil {
				if v, ok := st.cells[a]; ok {
					return v, true
				}
				sfail("variable %s is not live here", name)
			}
			for i, fv := range fn.FreeVars {
				if fv.Name() == name {
					_ = i
					if pc, ok := st.regs[fv].(PCell); ok {
						if v, ok := st.cells[pc.A]; ok {
							return v, true
						}
					}
				}
			}
		}
		if (mode == "post" || mode == "inv") && !isOld {
			if i, ok := resIdx[name]; ok && results != nil && i < len(results) {
				return x.applyDynType(fi, name, results[i]), true
			}
		}
		if i, ok := paramIdx[name]; ok {
			if args != nil {
				return args[i], true
			}
		}
		if mode != "inv" || isOld {
			for _, fv := range fn.FreeVars {
				if fv.Name() == name {
					if pc, ok := cur.regs[fv].(PCell); ok {
						s := st
						if v, ok := s.cells[pc.A]; ok {
							return v, true
						}
					}
				}
			}
		}
		if name == "result" && results != nil && len(results) >= 1 {
			return results[0], true
		}
		return nil, false
	}
	return ev
}

// ---------- function verification ----------

func (w *World) VerifyFunc(fs *FuncSpec) {
	defer func() {
		if r := recover(); r != nil {
			switch e := r.(type) {
			case vcErr:
				w.errorf("%s.%s: %s", fs.Pkg, fs.Name, e.msg)
				if w.FuncErrors == nil {
					w.FuncErrors = map[string]string{}
				}
				w.FuncErrors[fs.Pkg+"."+fs.Name] = e.msg
			case specErr:
				w.errorf("%s.%s: contract error: %s", fs.Pkg, fs.Name, e.msg)
			default:
				panic(r)
			}
		}
	}()
	fn := w.findFunc(fs.Pkg, fs.Name)
	if fn == nil {
		w.errorf("contract for unknown function %s.%s", fs.Pkg, fs.Name)
		return
	}
	fi := w.funcInfo(fn)
	if fi.Spec != fs {
		w.errorf("%s: contract key mismatch (%s)", fs.Name, fi.Key)
		return
	}
	for _, c := range fs.Clauses {
		if c.Kind == "checked" {
			// a clause that is NOT turned into an obligation: it is evaluated on concrete executions of
			// the real function on every run (bounded check, reported as such)
			w.Checked[strings.TrimPrefix(fs.Pkg, modPath+"/")+"."+fs.Name] = append(w.Checked[strings.TrimPrefix(fs.Pkg, modPath+"/")+"."+fs.Name], c.Text)
		}
	}
	for _, c := range fs.Clauses {
		if c.Kind == "trusted" {
			// the body is outside the verifier's reach: the contract is an ASSUMPTION for callers
			// (a bounded concrete check of it may be configured per property)
			w.Assumes["TRUSTED contract (body not verified): "+strings.TrimPrefix(fi.Key, modPath+"/")+" -- "+strings.TrimSpace(c.Text)] = true
			w.Trusted[strings.TrimPrefix(fs.Pkg, modPath+"/")+"."+fs.Name] = true
			return
		}
	}
	for n := range fs.Loops {
		if fi.NLoops == 0 {
			// the (changed) function has no loop left: its loop clauses have nothing to attach to and
			// are ignored; every other clause still becomes an obligation
			w.notef("%s: contract names loop %d but the function has no loops: loop clauses ignored", fi.Key, n)
			continue
		}
		if n < 1 || n > fi.NLoops {
			// fewer loops than the contract knows (a changed function): the surplus loop clauses
			// have nothing to attach to and are ignored
			w.notef("%s: contract names loop %d but the function has %d loops: clauses of loop %d ignored", fi.Key, n, fi.NLoops, n)
		}
	}
	// a function with frame "assigns nothing" never changes memory that existed at entry (every
	// store carries a frame obligation): spec functions over nested-slice PARAMETERS may then be
	// evaluated over the entry contents (see flatten)
	stableEntryHeaps = false
	for _, c := range fs.Clauses {
		if c.Kind == "assigns" && strings.TrimSpace(c.Text) == "nothing" {
			stableEntryHeaps = true
		}
	}
	x := &Exec{W: w, top: fi, counters: map[string]int{}, hints: &Hints{Reveal: map[string]bool{}}}
	st := &State{cells: map[*ssa.Alloc]Value{}, regs: map[ssa.Value]Value{}, heaps: map[string]*Term{}, globals: map[*ssa.Global]Value{}}
	st.alloc = Var("alloc@0", RegSort)
	x.alloc0 = st.alloc
	st.assume(BVCmp("bvult", BVInt(0, 32), st.alloc))
	st.assume(BVCmp("bvult", st.alloc, BVInt(0x40000000, 32)))
	var args []Value
	for _, p := range fn.Params {
		ty := tyFromGo(p.Type())
		v, facts := x.paramValue(ty, p.Name(), st)
		for _, f := range facts {
			st.assume(f)
		}
		st.regs[p] = v
		args = append(args, v)
		x.addModel(p.Name(), v)
		// fields of objects passed by pointer hold well-formed slice headers / live references
		if po, ok := v.(PObj); ok {
			s := po.Ty.Named.Underlying().(*types.Struct)
			for f := 0; f < s.NumFields(); f++ {
				ft := tyFromGo(s.Field(f).Type())
				if ft.K == TSlice || ft.K == TPtr || ft.K == TArray {
					x.wfLoaded(st, loadField(st, po.Ty.Named, f, po.Ref))
				}
			}
		}
	}
	var selfCells []*ssa.Alloc
	defer func() { _ = selfCells }()
	for _, fv := range fn.FreeVars {
		// captured variables: pointer to a cell owned by the enclosing function
		et := fv.Type().(*types.Pointer).Elem()
		ty := tyFromGo(et)
		cell := &ssa.Alloc{Comment: fv.Name()}
		synthCellTy[cell] = et
		v, facts := x.paramValue(ty, fv.Name(), st)
		for _, f := range facts {
			st.assume(f)
		}
		if _, isFunc := et.Underlying().(*types.Signature); isFunc {
			// a captured function variable: if the enclosing function stores exactly one value into
			// it and that value is THIS closure (var f func(..); f = func(..){ .. f(..) .. }), calls
			// through it are recursive calls, handled through this closure's own contract
			if selfRef(fn, fv) {
				var binds []Value
				for _, fv2 := range fn.FreeVars {
					if fv2 == fv {
						binds = append(binds, PCell{cell})
					} else {
						binds = append(binds, nil) // patched below, once all cells exist
					}
				}
				v = VClosure{Fn: fn, Binds: binds}
				selfCells = append(selfCells, cell)
			}
		}
		st.cells[cell] = v
		st.regs[fv] = PCell{cell}
		fi.Cells[fv.Name()] = []*ssa.Alloc{cell}
		x.addModel(fv.Name(), v)
	}
	// recursive self-references: the closure value's bindings are this activation's own cells
	for _, sc := range selfCells {
		if cl, ok := st.cells[sc].(VClosure); ok {
			for j, fv2 := range fn.FreeVars {
				cl.Binds[j] = st.regs[fv2]
			}
		}
	}
	initPhase := false
	for _, c := range fs.Clauses {
		if c.Kind == "assume" && c.Text == "initphase" || c.Kind == "initphase" {
			initPhase = true
		}
	}
	for _, c := range fs.Clauses {
		if c.Kind == "pure" && strings.TrimSpace(c.Text) == "initphase" {
			initPhase = true
		}
	}
	ev := x.funcEnv(fi, "pre", st, nil, args, nil)
	x.W.initPhase = initPhase
	for _, c := range fs.Clauses {
		if c.Kind == "requires" {
			t, err := ev.EvalBool(c.E)
			if err != nil {
				w.errorf("%s: %s: requires %s: %v", fi.Key, c.Line, c.Text, err)
				return
			}
			st.assume(t)
		}
	}
	x.entry = st.clone()
	x.assigns = x.parseAssigns(fi, ev)
	x.applyHints(st, fs.Clauses, ev, fi)
	// cover: the precondition is satisfiable
	cov := &Obligation{Name: fi.Key + "/cover-requires", Func: fi.Key, Kind: "cover", Hyps: append([]*Term(nil), st.hyps...), Goal: False, Cover: true, Hints: x.hints, Text: "precondition is satisfiable"}
	w.Obls = append(w.Obls, cov)
	entry := x.entry
	fr := &frame{fi: fi}
	nret := 0
	fr.ret = func(s *State, results []Value) {
		nret++
		pev := x.funcEnv(fi, "post", s, entry, args, results)
		// the reachability cover of this return uses the path condition as it is here, before the
		// return-time hints and cuts (instances of proved lemmas and proved cuts: consequences of it)
		coverHyps := append([]*Term(nil), s.hyps...)
		// return-time hints
		nCut := 0
		saved := x.hints
		for _, c := range fs.Clauses {
			if c.Kind == "useret" {
				// evaluated over the local variables live at this return; skipped where they are not
				x.invPos, x.invLoop = token.NoPos, nil
				iev := x.funcEnv(fi, "inv", s, entry, args, results)
				func() {
					defer func() {
						if r := recover(); r != nil {
							if _, ok := r.(vcErr); !ok {
								panic(r)
							}
						}
					}()
					x.applyUse(s, c, iev, fi)
				}()
			}
			if c.Kind == "instdepthret" {
				// instantiation depth for the obligations generated at a return (cuts, ensures)
				h := x.hints.clone()
				fmt.Sscanf(c.Text, "%d", &h.InstDepth)
				x.hints = h
			}
			if c.Kind == "assertret" {
				// a cut at the return: proved as its own obligation, then available to the ensures
				x.invPos, x.invLoop = token.NoPos, nil
				iev := x.funcEnv(fi, "inv", s, entry, args, results)
				if t, err := iev.EvalBool(c.E); err == nil {
					nCut++
					x.oblige(s, "assertret", fmt.Sprintf("#%d", nCut), c.Text, fn.Pos(), t)
					s.assume(t)
				}
			}
			if c.Kind == "splitret" {
				// split on an expression over the local variables live at this return (skipped
				// on return paths where they are not live)
				x.invPos, x.invLoop = x.retPos(s), nil
				iev := x.funcEnv(fi, "inv", s, entry, args, results)
				f := strings.Fields(c.Text)
				if len(f) >= 3 {
					var lo, hi int64
					fmt.Sscanf(f[len(f)-2], "%d", &lo)
					fmt.Sscanf(f[len(f)-1], "%d", &hi)
					if e, err := ParseExpr(strings.Join(f[:len(f)-2], " ")); err == nil {
						if v, err := iev.EvalVal(e); err == nil {
							if si, ok := v.(SInt); ok {
								h := x.hints.clone()
								h.Splits = append(h.Splits, Split{si.T, lo, hi})
								x.hints = h
							}
						}
					}
				}
			}
		}
		defer func() { x.hints = saved }()
		n := 0
		for _, c := range fs.Clauses {
			if c.Kind == "mapentries" {
				x.checkMapEntries(s, fi, c)
			}
			if c.Kind == "establishes" {
				// the package initialiser must establish every global invariant of its package
				for _, gi := range w.GlobalInvs {
					if gi.Pkg != fs.Pkg {
						continue
					}
					// only the tables this function is responsible for (listed in its assigns)
					mine := false
					for _, a := range x.assigns {
						if a.kind == "all" || (a.kind == "global" && a.g.Name() == gi.Name) {
							mine = true
						}
					}
					if !mine {
						continue
					}
					gev := &Env{W: w, st: s, pkg: fn.Pkg, bound: map[string]SVal{}}
					t, err := gev.EvalBool(gi.E)
					if err != nil {
						w.errorf("%s: global invariant %s: %v", fi.Key, gi.Name, err)
						continue
					}
					x.oblige(s, "establishes", "/"+gi.Name, "global "+gi.Name+": "+gi.Text, fn.Pos(), t)
				}
			}
			if c.Kind != "ensures" {
				continue
			}
			n++
			t, err := pev.EvalBool(c.E)
			if err != nil {
				w.errorf("%s: %s: ensures %s: %v", fi.Key, c.Line, c.Text, err)
				continue
			}
			x.oblige(s, "ensures", fmt.Sprintf("#%d", n), c.Text, fn.Pos(), t)
		}
		// reachability cover of this return
		co := &Obligation{Name: fmt.Sprintf("%s/cover-return%s", fi.Key, s.retTag), Path: strings.Join(s.path, ""), Func: fi.Key, Kind: "cover", Hyps: coverHyps, Goal: False, Cover: true, Hints: saved, Text: "return reachable"}
		w.Obls = append(w.Obls, co)
	}
	if len(fn.Blocks) == 0 {
		w.errorf("%s has no body", fi.Key)
		return
	}
	w.curFunc = fi.Key
	x.enterBlock(st, fn.Blocks[0], nil, fr)
}

// synthCellTy: element types of the synthetic cells that stand for captured variables
var synthCellTy = map[*ssa.Alloc]types.Type{}

func cellElemType(a *ssa.Alloc) types.Type {
	if t, ok := synthCellTy[a]; ok {
		return t
	}
	return a.Type().(*types.Pointer).Elem()
}

// selfRef: free variable fv of closure fn is a function variable of the enclosing function whose
// only store is the MakeClosure of fn itself.
func selfRef(fn *ssa.Function, fv *ssa.FreeVar) bool {
	parent := fn.Parent()
	if parent == nil {
		return false
	}
	idx := -1
	for j, f := range fn.FreeVars {
		if f == fv {
			idx = j
		}
	}
	var cell ssa.Value
	for _, b := range parent.Blocks {
		for _, in := range b.Instrs {
			if mc, ok := in.(*ssa.MakeClosure); ok && mc.Fn == fn && idx < len(mc.Bindings) {
				cell = mc.Bindings[idx]
			}
		}
	}
	a, ok := cell.(*ssa.Alloc)
	if !ok || a.Referrers() == nil {
		return false
	}
	stores := 0
	self := false
	for _, r := range *a.Referrers() {
		if s, ok := r.(*ssa.Store); ok && s.Addr == a {
			stores++
			if mc, ok := s.Val.(*ssa.MakeClosure); ok && mc.Fn == fn {
				self = true
			}
		}
	}
	// other closures capturing the cell could store to it as well: require that none does
	for _, af := range parent.AnonFuncs {
		for j, f := range af.FreeVars {
			_ = j
			if f.Name() == fv.Name() && af != fn {
				return false
			}
		}
		if af == fn {
			for _, b := range af.Blocks {
				for _, in := range b.Instrs {
					if s, ok := in.(*ssa.Store); ok && s.Addr == ssa.Value(fv) {
						return false
					}
				}
			}
		}
	}
	return stores == 1 && self
}

func (x *Exec) addModel(name string, v Value) {
	switch s := v.(type) {
	case VScalar:
		x.model = append(x.model, NamedTerm{name, s.T})
	case VSlice:
		x.model = append(x.model, NamedTerm{name + ".reg", s.Reg}, NamedTerm{name + ".off", s.Off}, NamedTerm{name + ".len", s.Len})
	case PObj:
		x.model = append(x.model, NamedTerm{name, s.Ref})
	}
}

func (x *Exec) paramValue(ty *STy, name string, st *State) (Value, []*Term) {
	switch ty.K {
	case TInt, TBool, TIface:
		return VScalar{Var(name, ty.scalarSort()), ty}, nil
	case TPtr:
		r := Var(name, RegSort)
		x.W.Assumes["pointer parameters/receivers are non-nil and point to live objects"] = true
		return PObj{r, ty}, []*Term{BVCmp("bvult", r, st.alloc), Not(Eq(r, BVInt(0, 32)))}
	case TSlice:
		v := VSlice{Reg: Var(name+".reg", RegSort), Off: Var(name+".off", IdxSort), Len: Var(name+".len", IdxSort), Ty: ty}
		z := BVInt(0, 64)
		x.W.Assumes["slice/string headers of inputs are well-formed: 0 <= len <= cap <= 2^48/elemsize (Go runtime maxAlloc on 64-bit)"] = true
		facts := []*Term{
			BVCmp("bvult", v.Reg, st.alloc),
			BVCmp("bvsle", z, v.Len),
			BVCmp("bvsle", z, v.Off),
			BVCmp("bvsle", v.Off, BVInt(int64(1)<<48, 64)),
		}
		if ty.IsStr {
			v.Cap = v.Len
			facts = append(facts, BVCmp("bvsle", v.Len, BVInt(int64(1)<<48, 64)))
		} else {
			v.Cap = Var(name+".cap", IdxSort)
			facts = append(facts, BVCmp("bvsle", v.Len, v.Cap), BVCmp("bvsle", v.Cap, BVInt(maxLenFor(ty.Elem), 64)))
		}
		if ty.Elem.K == TSlice {
			// elements of a slice of slices/strings are themselves well-formed, allocated headers
			k := BoundVar("k", IdxSort, "s64")
			pos := BVBin("bvadd", v.Off, Mark(k, "s64"))
			ev, _ := loadElem(st, ty.Elem, v.Reg, pos).(VSlice)
			z64 := BVInt(0, 64)
			body := []*Term{BVCmp("bvult", ev.Reg, st.alloc), BVCmp("bvsle", z64, ev.Len), BVCmp("bvsle", z64, ev.Off),
				BVCmp("bvsle", ev.Off, BVInt(int64(1)<<48, 64)), BVCmp("bvsle", ev.Len, BVInt(int64(1)<<48, 64))}
			if !ty.Elem.IsStr {
				body = append(body, BVCmp("bvsle", ev.Len, ev.Cap), BVCmp("bvsle", ev.Cap, BVInt(int64(1)<<48, 64)))
			}
			facts = append(facts, Forall([]*Term{k}, Implies(And(BVCmp("bvsle", z64, k), BVCmp("bvslt", k, v.Len)), And(body...))))
		}
		return v, facts
	}
	return x.freshValue(ty, name, st)
}

func (x *Exec) assumeGlobalInvs(st *State, ev *Env) {
	for _, gi := range x.W.GlobalInvs {
		p := x.W.Pkgs[gi.Pkg]
		if p == nil {
			continue
		}
		gev := &Env{W: x.W, st: st, pkg: p, bound: map[string]SVal{}}
		t, err := gev.EvalBool(gi.E)
		if err != nil {
			x.W.errorf("global invariant %s: %v", gi.Name, err)
			continue
		}
		st.assume(t)
	}
}

// parseAssigns evaluates the assigns clauses at function entry.
func (x *Exec) parseAssigns(fi *FuncInfo, ev *Env) []assignItem {
	var out []assignItem
	seen := false
	for _, c := range fi.Spec.Clauses {
		if c.Kind != "assigns" {
			continue
		}
		seen = true
		txt := strings.TrimSpace(c.Text)
		if txt == "nothing" {
			continue
		}
		for _, it := range strings.Split(txt, ",") {
			it = strings.TrimSpace(it)
			out = append(out, x.assignItem(fi, ev, it))
		}
	}
	if !seen {
		// default: nothing
	}
	return out
}

// ghostItem recognises an assigns item "g(e)" naming one entry of a ghost map.
func (x *Exec) ghostItem(ev *Env, it string) (string, *SpecFn, *Term, bool) {
	p := strings.Index(it, "(")
	if p <= 0 || !strings.HasSuffix(it, ")") {
		return "", nil, nil, false
	}
	fn := x.W.SpecFns[strings.TrimSpace(it[:p])]
	if fn == nil || !fn.Ghost {
		return "", nil, nil, false
	}
	if ev == nil {
		return ghostKey(fn.Name), fn, nil, true
	}
	e, err := ParseExpr(it[p+1 : len(it)-1])
	if err != nil {
		vfail("assigns %s: %v", it, err)
	}
	v, err := ev.EvalVal(e)
	if err != nil {
		vfail("assigns %s: %v", it, err)
	}
	flat := flatten(v)
	if len(flat) != 1 {
		vfail("assigns %s: key is not a scalar", it)
	}
	return ghostKey(fn.Name), fn, flat[0], true
}

func (x *Exec) assignItem(fi *FuncInfo, ev *Env, it string) assignItem {
	if it == "*" {
		return assignItem{kind: "all", text: it}
	}
	if key, _, k, ok := x.ghostItem(ev, it); ok {
		return assignItem{kind: "ghost", key: key, reg: k, text: it}
	}
	if strings.HasSuffix(it, "[*]") {
		e, err := ParseExpr(strings.TrimSuffix(it, "[*]"))
		if err != nil {
			vfail("assigns %s: %v", it, err)
		}
		v, err := ev.EvalVal(e)
		if err != nil {
			vfail("assigns %s: %v", it, err)
		}
		s, ok := v.(SSlice)
		if !ok || s.Reg == nil {
			vfail("assigns %s: not a slice", it)
		}
		return assignItem{kind: "region", reg: s.Reg, text: it}
	}
	if k := strings.LastIndex(it, "."); k >= 0 {
		e, err := ParseExpr(it[:k])
		if err == nil {
			if v, err := ev.EvalVal(e); err == nil {
				if p, ok := v.(SPtr); ok {
					s := p.Ty.Named.Underlying().(*types.Struct)
					for i := 0; i < s.NumFields(); i++ {
						if s.Field(i).Name() == it[k+1:] {
							return assignItem{kind: "field", reg: p.Ref, named: p.Ty.Named, field: i, text: it}
						}
					}
				}
			}
		}
	}
	// global
	pkg := fi.Fn.Pkg
	if pkg == nil && fi.Fn.Parent() != nil {
		pkg = fi.Fn.Parent().Pkg
	}
	if g, ok := pkg.Members[it].(*ssa.Global); ok {
		return assignItem{kind: "global", g: g, text: it}
	}
	for _, fv := range fi.Fn.FreeVars {
		if fv.Name() == it {
			// a captured variable of the enclosing function (the cell itself; its memory is "it[*]")
			return assignItem{kind: "cell", text: it}
		}
	}
	vfail("assigns: cannot resolve %q", it)
	return assignItem{}
}

// applyHints processes use/split/reveal/inst clauses (function level: evaluated at entry).
func (x *Exec) applyHints(st *State, cls []*Clause, ev *Env, fi *FuncInfo) {
	h := x.hints.clone()
	for _, c := range cls {
		switch c.Kind {
		case "use":
			// a hint that does not fit the (changed) code is dropped - hints only add provable facts -
			// and recorded as an engine error, so the run cannot end with exit 0
			func() {
				defer func() {
					if r := recover(); r != nil {
						e, ok := r.(vcErr)
						if !ok {
							panic(r)
						}
						x.W.errorOnce(e.msg + " (hint dropped)")
					}
				}()
				x.applyUse(st, c, ev, fi)
			}()
		case "reveal":
			for _, n := range strings.Fields(strings.ReplaceAll(c.Text, ",", " ")) {
				h.Reveal[n] = true
			}
		case "split":
			f := strings.Fields(c.Text)
			if len(f) < 3 {
				vfail("%s: split EXPR LO HI", c.Line)
			}
			var lo, hi int64
			fmt.Sscanf(f[len(f)-2], "%d", &lo)
			fmt.Sscanf(f[len(f)-1], "%d", &hi)
			e, err := ParseExpr(strings.Join(f[:len(f)-2], " "))
			if err != nil {
				vfail("%s: %v", c.Line, err)
			}
			v, err := ev.EvalVal(e)
			if err != nil {
				vfail("%s: split: %v", c.Line, err)
			}
			si, ok := v.(SInt)
			if !ok {
				vfail("%s: split expression must be an integer", c.Line)
			}
			h.Splits = append(h.Splits, Split{si.T, lo, hi})
		case "inst":
			v, err := ev.EvalVal(c.E)
			if err != nil {
				vfail("%s: inst: %v", c.Line, err)
			}
			if si, ok := v.(SInt); ok {
				h.Insts = append(h.Insts, si.T)
			}
		case "nounfold":
			h.NoUnfold = true
		case "regionctx":
			h.RegionCtx = true
		case "timeout":
			fmt.Sscanf(c.Text, "%d", &h.Timeout)
		case "fuel":
			fmt.Sscanf(c.Text, "%d", &h.Fuel)
		case "instdepth":
			fmt.Sscanf(c.Text, "%d", &h.InstDepth)
		}
	}
	x.hints = h
}

// applyUse assumes an instance of a lemma:  use lemma(args)
func (x *Exec) applyUse(st *State, c *Clause, ev *Env, fi *FuncInfo) {
	if q, ok := c.E.(*EQuant); ok && q.Forall {
		// use forall v T :: LEMMA(args)  - a lemma schema the engine instantiates (e.g. at skolems)
		call, ok := q.Body.(*ECall)
		if !ok {
			vfail("%s: use forall v T :: LEMMA(args)", c.Line)
		}
		nev := ev
		var vars []*Term
		for _, p := range q.Vars {
			ty := tyFromName(p.Type)
			if ty == nil || ty.K != TInt {
				vfail("%s: quantified use needs integer variables", c.Line)
			}
			bv := BoundVar(p.Name, BV(ty.W), tyKey(ty))
			vars = append(vars, bv)
			nev = nev.with(p.Name, SInt{bv, ty})
		}
		t, err := x.W.lemmaInstance(nev, call)
		if err != nil {
			vfail("%s: %v", c.Line, err)
		}
		x.W.noteLemmaUse(x.top.Key, call.Fn)
		st.assume(Forall(vars, t))
		return
	}
	call, ok := c.E.(*ECall)
	if !ok {
		vfail("%s: use LEMMA(args)", c.Line)
	}
	t, err := x.W.lemmaInstance(ev, call)
	if err != nil {
		vfail("%s: %v", c.Line, err)
	}
	x.W.noteLemmaUse(x.top.Key, call.Fn)
	st.assume(t)
}

// lemmaInstance evaluates (requires ==> ensures) of a lemma at the given argument expressions.
func (w *World) lemmaInstance(ev *Env, call *ECall) (t *Term, err error) {
	lem := w.Lemmas[call.Fn]
	if lem == nil {
		return nil, fmt.Errorf("unknown lemma %s", call.Fn)
	}
	if len(call.Args) != len(lem.Params) {
		return nil, fmt.Errorf("lemma %s: expected %d arguments", lem.Name, len(lem.Params))
	}
	defer func() {
		if r := recover(); r != nil {
			if se, ok := r.(specErr); ok {
				err = fmt.Errorf("lemma %s: %s", lem.Name, se.msg)
				return
			}
			panic(r)
		}
	}()
	args := make([]SVal, len(call.Args))
	for i, a := range call.Args {
		args[i] = ev.coerce(ev.eval(a), lem.Params[i].Type, lem.Name)
	}
	return w.lemmaBody(lem, args), nil
}

func (w *World) lemmaBody(lem *Lemma, args []SVal) *Term {
	lev := &Env{W: w, st: &State{heaps: map[string]*Term{}}, bound: map[string]SVal{}}
	for i, p := range lem.Params {
		lev.bound[p.Name] = args[i]
	}
	var req, ens []*Term
	// lemmas are proved for well-formed slices (0 <= len, 0 <= off, both <= 2^48): an instance
	// at other arguments must not be used
	for _, a := range args {
		if s, ok := a.(SSlice); ok && s.Len != nil && s.Off != nil {
			req = append(req, BVCmp("bvsle", BVInt(0, 64), s.Len), BVCmp("bvsle", BVInt(0, 64), s.Off),
				BVCmp("bvsle", s.Len, BVInt(int64(1)<<60, 64)), BVCmp("bvsle", s.Off, BVInt(int64(1)<<60, 64)))
			// (the element headers of a nested-slice PARAMETER are well-formed by the function's own
			// entry assumptions: no guard needed, and none of its skolem constants)
			if wf := nestedWF(s); wf != True && !isEntryParamSlice(s) {
				req = append(req, wf)
			}
		}
	}
	for _, c := range lem.Clauses {
		switch c.Kind {
		case "requires":
			b, ok := lev.eval(c.E).(SBool)
			if !ok {
				sfail("requires not boolean")
			}
			req = append(req, b.T)
		case "ensures":
			b, ok := lev.eval(c.E).(SBool)
			if !ok {
				sfail("ensures not boolean")
			}
			ens = append(ens, b.T)
		}
	}
	return Implies(And(req...), And(ens...))
}

// ---------- loops ----------

func (x *Exec) loopSpec(fr *frame, lp *Loop) *LoopSpec {
	if fr.fi.Spec == nil {
		// a loop of an inlined function that has no contract (a helper introduced by a change): cut by
		// the invariant true
		x.W.noteOnce(fmt.Sprintf("%s: loop %d of a function without contract: abstracted by havoc (invariant true)", fr.fi.Key, lp.Ordinal))
		if x.adhocLoops == nil {
			x.adhocLoops = map[*Loop]*LoopSpec{}
		}
		if x.adhocLoops[lp] == nil {
			x.adhocLoops[lp] = &LoopSpec{N: lp.Ordinal}
		}
		return x.adhocLoops[lp]
	}
	ls := fr.fi.Spec.Loops[lp.Ordinal]
	if ls == nil {
		// a loop the contract does not know (a changed function): abstracted soundly by the
		// invariant "true" - everything the loop may store to is havocked, nothing is assumed
		// about it; obligations after the loop that needed an invariant then fail and are reported
		x.W.noteOnce(fmt.Sprintf("%s: loop %d has no invariant in the contract: abstracted by havoc (invariant true)", fr.fi.Key, lp.Ordinal))
		ls = &LoopSpec{N: lp.Ordinal}
		fr.fi.Spec.Loops[lp.Ordinal] = ls
	}
	return ls
}

func (x *Exec) checkInvariants(st *State, fr *frame, lp *Loop, phase string) {
	ls := x.loopSpec(fr, lp)
	x.invPos, x.invLoop = lp.BodyPos, lp
	ev := x.funcEnv(fr.fi, "inv", st, x.entryFor(fr), x.argsFor(fr), nil)
	n := 0
	saved := x.hints
	defer func() { x.hints = saved }()
	for _, c := range ls.Clauses {
		if c.Kind != "invariant" {
			continue
		}
		n++
		t, err := ev.EvalBool(c.E)
		if err != nil {
			// the clause does not fit the (changed) code: it is dropped - which only weakens what is
			// assumed - and recorded as an engine error, so the run can never end with exit 0
			x.W.errorOnce(fmt.Sprintf("%s: invariant %s: %v (clause dropped)", c.Line, c.Text, err))
			continue
		}
		x.hints = saved
		if phase == "entry" {
			// splitentry#n / revealentry#n: hints for the entry obligation of invariant n, evaluated
			// in the state before the loop (skipped where the expression is not live)
			h := saved.clone()
			for _, hc := range ls.Clauses {
				tag := fmt.Sprintf("#%d", n)
				switch {
				case hc.Kind == "splitentry"+tag || hc.Kind == "splitentry":
					f := strings.Fields(hc.Text)
					if len(f) >= 3 {
						var lo, hi int64
						fmt.Sscanf(f[len(f)-2], "%d", &lo)
						fmt.Sscanf(f[len(f)-1], "%d", &hi)
						if e, err := ParseExpr(strings.Join(f[:len(f)-2], " ")); err == nil {
							if v, err := ev.EvalVal(e); err == nil {
								if si, ok := v.(SInt); ok {
									h.Splits = append(h.Splits, Split{si.T, lo, hi})
								}
							}
						}
					}
				case hc.Kind == "revealentry"+tag || hc.Kind == "revealentry":
					for _, nm := range strings.Fields(strings.ReplaceAll(hc.Text, ",", " ")) {
						h.Reveal[nm] = true
					}
				}
			}
			x.hints = h
		}
		x.oblige(st, fmt.Sprintf("loop%d/inv#%d/%s", lp.Ordinal, n, phase), suffixFn(fr, x), c.Text, lp.Pos, t)
	}
}

func suffixFn(fr *frame, x *Exec) string {
	if fr.fi == x.top {
		return ""
	}
	return "@" + shortFn(fr.fi.Fn)
}

func (x *Exec) entryFor(fr *frame) *State { return x.entry }
func (x *Exec) argsFor(fr *frame) []Value {
	var args []Value
	for _, p := range fr.fi.Fn.Params {
		args = append(args, x.entry.regs[p])
	}
	if fr.fi != x.top {
		return nil
	}
	return args
}

type heapWin struct{ reg, off, n *Term }

type heapEff struct {
	unknown bool
	wins    []heapWin // element windows [off, off+n) of a region (assumed contracts of externals)
	regs    []*Term
	field   bool
	ghost   bool // ghost map: keys are not memory references (no allocation bound in the frame)
}

type objRef struct {
	named *types.Named
	ref   *Term
}

type effects struct {
	objs    []objRef // objects whose fields are (partly) havocked: their slice headers stay well-formed
	cells   map[*ssa.Alloc]bool
	heaps   map[string]*heapEff
	globals map[*ssa.Global]bool
	allocs  bool
}

func (x *Exec) havocLoop(st *State, fr *frame, lp *Loop) {
	ls := x.loopSpec(fr, lp)
	eff := &effects{cells: map[*ssa.Alloc]bool{}, heaps: map[string]*heapEff{}, globals: map[*ssa.Global]bool{}}
	var blocks []*ssa.BasicBlock
	for b := range lp.Blocks {
		blocks = append(blocks, b)
	}
	sort.Slice(blocks, func(i, j int) bool { return blocks[i].Index < blocks[j].Index })
	inLoop := &loopCtx{fn: fr.fi.Fn, blocks: lp.Blocks}
	x.collectEffects(st, fr.fi.Fn, blocks, inLoop, eff, 0)
	pre := st.clone()
	// the allocation counter first: havocked variables may refer to memory allocated by earlier
	// iterations (their well-formedness is stated against the NEW counter)
	if eff.allocs {
		na := FreshVar("alloc", RegSort)
		st.assume(BVCmp("bvule", pre.alloc, na))
		st.assume(BVCmp("bvult", na, BVInt(0x40000000, 32)))
		st.alloc = na
	}
	// cells
	var cells []*ssa.Alloc
	for a := range eff.cells {
		cells = append(cells, a)
	}
	sort.Slice(cells, func(i, j int) bool { return cells[i].Pos() < cells[j].Pos() })
	for _, a := range cells {
		if inLoop.has(a) {
			continue // allocated (re-initialised) inside the loop
		}
		if _, live := st.cells[a]; !live {
			continue
		}
		ty := tyFromGo(cellElemType(a))
		name := a.Comment
		if name == "" {
			name = "tmp"
		}
		v, facts := x.freshValue(ty, name, st)
		st.cells[a] = v
		for _, f := range facts {
			st.assume(f)
		}
	}
	x.havocHeaps(st, pre, eff)
	x.wfObjects(st, eff)
	for g := range eff.globals {
		ty := tyFromGo(g.Type().(*types.Pointer).Elem())
		v, _ := x.freshValue(ty, globalName(g), st)
		st.globals[g] = v
	}
	// assume invariants
	x.invPos, x.invLoop = lp.BodyPos, lp
	ev := x.funcEnv(fr.fi, "inv", st, x.entry, x.argsFor(fr), nil)
	for _, c := range ls.Clauses {
		if c.Kind != "invariant" {
			continue
		}
		t, err := ev.EvalBool(c.E)
		if err != nil {
			x.W.errorOnce(fmt.Sprintf("%s: invariant %s: %v (clause dropped)", c.Line, c.Text, err))
			continue
		}
		st.assume(t)
	}
	x.applyHints(st, ls.Clauses, ev, fr.fi)
}

// havocHeaps replaces modified heaps by fresh ones constrained by frame hypotheses.
func (x *Exec) havocHeaps(st, pre *State, eff *effects) {
	var keys []string
	for k := range eff.heaps {
		keys = append(keys, k)
	}
	sort.Strings(keys)
	for _, key := range keys {
		he := eff.heaps[key]
		preH, ok := pre.heaps[key]
		if !ok {
			continue // never touched before: the loop sees the initial heap; create lazily below
		}
		post := FreshVar(key, preH.S)
		st.heaps[key] = post
		rho := BoundVar("r", RegSort, "reg")
		var cond []*Term
		var base *Term
		if he.ghost && he.unknown {
			for _, a := range x.assigns {
				if a.kind == "ghost" && a.key == key {
					cond = append(cond, Not(Eq(rho, a.reg)))
				}
			}
			base = Var(key+"@0", preH.S)
		} else if he.ghost {
			for _, r := range he.regs {
				cond = append(cond, Not(Eq(rho, r)))
			}
			base = preH
		} else if he.unknown {
			cond = append(cond, BVCmp("bvult", rho, x.alloc0))
			for _, a := range x.assigns {
				if a.kind == "region" || a.kind == "field" {
					cond = append(cond, Not(Eq(rho, a.reg)))
				}
			}
			base = Var(key+"@0", preH.S)
		} else {
			cond = append(cond, BVCmp("bvult", rho, pre.alloc))
			for _, r := range he.regs {
				cond = append(cond, Not(Eq(rho, r)))
			}
			for _, w := range he.wins {
				cond = append(cond, Not(Eq(rho, w.reg)))
			}
			base = preH
			// a window: the rest of its region is unchanged (unless the region is also touched
			// through another item of the same effect set)
			for wi, w := range he.wins {
				var distinct []*Term
				for _, r := range he.regs {
					distinct = append(distinct, Not(Eq(w.reg, r)))
				}
				for wj, w2 := range he.wins {
					if wj != wi {
						distinct = append(distinct, Not(Eq(w.reg, w2.reg)))
					}
				}
				j := BoundVar("j", IdxSort, "s64")
				outside := Or(BVCmp("bvslt", j, w.off), BVCmp("bvsle", BVBin("bvadd", w.off, w.n), j))
				st.assume(Implies(And(distinct...), Forall([]*Term{j}, Implies(outside,
					Eq(Select(Select(post, Mark(w.reg, "reg")), Mark(j, "s64")), Select(Select(preH, Mark(w.reg, "reg")), Mark(j, "s64")))))))
			}
		}
		st.assume(Forall([]*Term{rho}, Implies(And(cond...), Eq(Select(post, Mark(rho, "reg")), Select(base, Mark(rho, "reg"))))))
	}
}

// wfObjects: slice headers / references stored in the fields of havocked objects are well-formed.
func (x *Exec) wfObjects(st *State, eff *effects) {
	seen := map[string]bool{}
	for _, o := range eff.objs {
		k := fmt.Sprintf("%p|%d", o.named, o.ref.id)
		if seen[k] {
			continue
		}
		seen[k] = true
		s := o.named.Underlying().(*types.Struct)
		for f := 0; f < s.NumFields(); f++ {
			ft := tyFromGo(s.Field(f).Type())
			if ft.K == TSlice || ft.K == TPtr || ft.K == TArray {
				x.wfLoaded(st, loadField(st, o.named, f, o.ref))
			}
		}
	}
}

// wfResultObject: the object a call returned (and, one level down, the objects it points to)
// holds well-formed slice headers, live references and allocated array storage.
func (x *Exec) wfResultObject(st *State, p PObj, depth int) {
	if p.Ty == nil || p.Ty.Named == nil || depth > 2 {
		return
	}
	s, ok := p.Ty.Named.Underlying().(*types.Struct)
	if !ok {
		return
	}
	for f := 0; f < s.NumFields(); f++ {
		ft := tyFromGo(s.Field(f).Type())
		if ft.K == TSlice || ft.K == TPtr || ft.K == TArray {
			v := x.wfLoaded(st, loadField(st, p.Ty.Named, f, p.Ref))
			if q, ok := v.(PObj); ok && ft.Named != p.Ty.Named {
				x.wfResultObject(st, q, depth+1)
			}
		}
	}
}

// ensureHeap makes sure a heap key exists in the state (so that havoc can frame it).
func ensureHeap(st *State, key string, srt *Sort, field bool) {
	if _, ok := st.heaps[key]; ok {
		return
	}
	st.heaps[key] = initialHeapVar(key, srt, field)
}

func compSort(key string, e *STy) *Sort {
	switch {
	case strings.HasSuffix(key, ".reg"), strings.HasSuffix(key, ".areg"):
		return RegSort
	case strings.HasSuffix(key, ".off"), strings.HasSuffix(key, ".len"), strings.HasSuffix(key, ".cap"):
		return IdxSort
	}
	return e.scalarSort()
}

func (x *Exec) addHeapEff(st *State, eff *effects, e *STy, regs []*Term, unknown bool) {
	for _, k := range elemHeapKeys(e) {
		ensureHeap(st, k, compSort(k, e), false)
		he := eff.heaps[k]
		if he == nil {
			he = &heapEff{}
			eff.heaps[k] = he
		}
		he.regs = append(he.regs, regs...)
		if unknown {
			he.unknown = true
		}
	}
}

func (x *Exec) addGhostEff(st *State, eff *effects, fn *SpecFn, keys []*Term, unknown bool) {
	k := ghostKey(fn.Name)
	ensureHeap(st, k, x.W.retTy(fn).scalarSort(), true)
	he := eff.heaps[k]
	if he == nil {
		he = &heapEff{ghost: true, field: true}
		eff.heaps[k] = he
	}
	he.regs = append(he.regs, keys...)
	if unknown {
		he.unknown = true
	}
}

func (x *Exec) addFieldEff(st *State, eff *effects, n *types.Named, f int, refs []*Term, unknown bool) {
	for _, r := range refs {
		eff.objs = append(eff.objs, objRef{n, r})
	}
	s := n.Underlying().(*types.Struct)
	ft := tyFromGo(s.Field(f).Type())
	for _, k := range fieldKeys(n, f) {
		ensureHeap(st, k, compSort(k, ft), true)
		he := eff.heaps[k]
		if he == nil {
			he = &heapEff{field: true}
			eff.heaps[k] = he
		}
		he.regs = append(he.regs, refs...)
		if unknown {
			he.unknown = true
		}
	}
}

// rootRegion determines the region a slice-valued SSA value points into at loop entry.
// It returns (regs, ok): regs are the possible pre-existing regions (empty = only fresh ones).
func (x *Exec) rootRegion(st *State, v ssa.Value, inLoop *loopCtx, fn *ssa.Function, depth int) ([]*Term, bool) {
	if depth > 8 {
		return nil, false
	}
	if !inLoop.has(v) {
		// defined before the loop: value known in st
		if _, isConst := v.(*ssa.Const); isConst {
			return nil, true
		}
		if r, ok := st.regs[v]; ok {
			switch s := r.(type) {
			case VSlice:
				return []*Term{s.Reg}, true
			case PArr:
				return []*Term{s.Reg}, true
			}
		}
		return nil, false
	}
	switch i := v.(type) {
	case *ssa.MakeSlice:
		return nil, true
	case *ssa.Alloc:
		return nil, true
	case *ssa.Slice:
		return x.rootRegion(st, i.X, inLoop, fn, depth+1)
	case *ssa.Call:
		if b, ok := i.Call.Value.(*ssa.Builtin); ok && b.Name() == "append" {
			return x.rootRegion(st, i.Call.Args[0], inLoop, fn, depth+1)
		}
		// result of a callee: fresh if its contract says so - conservatively unknown
		return nil, false
	case *ssa.UnOp:
		if i.Op != token.MUL {
			return nil, false
		}
		switch a := i.X.(type) {
		case *ssa.Alloc:
			if inLoop.has(a) {
				// cell allocated in loop: find its stores
				return x.cellRoots(st, a, inLoop, fn, depth)
			}
			cur, ok := st.cells[a].(VSlice)
			if !ok {
				return nil, false
			}
			regs, ok2 := x.cellRoots(st, a, inLoop, fn, depth)
			if !ok2 {
				return nil, false
			}
			return append(regs, cur.Reg), true
		case *ssa.FieldAddr:
			// field of an object whose pointer is loaded from a loop-invariant cell
			if ld, ok := a.X.(*ssa.UnOp); ok && ld.Op == token.MUL {
				if oc, ok := ld.X.(*ssa.Alloc); ok && !inLoop.has(oc) {
					if po, ok := st.cells[oc].(PObj); ok {
						if sv, ok := loadField(st, po.Ty.Named, a.Field, po.Ref).(VSlice); ok {
							// stores to this field inside the loop must be self-derived (append of itself)
							return []*Term{sv.Reg}, true
						}
					}
				}
			}
		}
	}
	return nil, false
}

// cellRoots: all stores to cell a inside the loop must be derived from the cell itself or fresh.
func (x *Exec) cellRoots(st *State, a *ssa.Alloc, inLoop *loopCtx, fn *ssa.Function, depth int) ([]*Term, bool) {
	var regs []*Term
	for _, ref := range *a.Referrers() {
		s, ok := ref.(*ssa.Store)
		if !ok || s.Addr != a || !inLoop.hasInstr(s) {
			continue
		}
		if selfDerived(s.Val, a, 0) {
			continue
		}
		r, ok := x.rootRegion(st, s.Val, inLoop, fn, depth+1)
		if !ok {
			return nil, false
		}
		regs = append(regs, r...)
	}
	return regs, true
}

func selfDerived(v ssa.Value, a *ssa.Alloc, depth int) bool {
	if depth > 8 {
		return false
	}
	switch i := v.(type) {
	case *ssa.UnOp:
		return i.Op == token.MUL && i.X == a
	case *ssa.Slice:
		return selfDerived(i.X, a, depth+1)
	case *ssa.Call:
		if b, ok := i.Call.Value.(*ssa.Builtin); ok && b.Name() == "append" {
			return selfDerived(i.Call.Args[0], a, depth+1)
		}
	case *ssa.MakeSlice:
		return true
	}
	return false
}

// collectEffects scans instructions for cell stores, heap writes, allocations.
func (x *Exec) collectEffects(st *State, fn *ssa.Function, blocks []*ssa.BasicBlock, inLoop *loopCtx, eff *effects, depth int) {
	if depth > 6 {
		vfail("effects: inlining too deep")
	}
	for _, b := range blocks {
		for _, in := range b.Instrs {
			switch i := in.(type) {
			case *ssa.Store:
				x.storeEffect(st, i.Addr, inLoop, fn, eff)
			case *ssa.MakeSlice:
				eff.allocs = true
				x.addHeapEff(st, eff, tyFromGo(i.Type()).Elem, nil, false)
			case *ssa.Alloc:
				et := tyFromGo(i.Type().(*types.Pointer).Elem())
				if et.K == TArray {
					eff.allocs = true
					x.addHeapEff(st, eff, et.Elem, nil, false)
				} else if et.K == TStruct && i.Heap {
					eff.allocs = true
					s := et.Named.Underlying().(*types.Struct)
					for f := 0; f < s.NumFields(); f++ {
						ft := tyFromGo(s.Field(f).Type())
						if ft.K == TOpaque || ft.K == TStruct {
							continue
						}
						x.addFieldEff(st, eff, et.Named, f, nil, false)
					}
				} else {
					eff.cells[i] = true
				}
			case *ssa.Convert:
				from, to := tyFromGo(i.X.Type()), tyFromGo(i.Type())
				if from.K == TSlice && to.K == TSlice && from.IsStr != to.IsStr {
					eff.allocs = true
					x.addHeapEff(st, eff, tyU8, nil, false)
				}
			case *ssa.Call:
				x.callEffect(st, i, inLoop, fn, eff, depth)
			}
		}
	}
}

func (x *Exec) storeEffect(st *State, addr ssa.Value, inLoop *loopCtx, fn *ssa.Function, eff *effects) {
	switch a := addr.(type) {
	case *ssa.Alloc:
		eff.cells[a] = true
	case *ssa.IndexAddr:
		bt := tyFromGo(a.X.Type())
		switch bt.K {
		case TSlice:
			regs, ok := x.rootRegion(st, a.X, inLoop, fn, 0)
			x.addHeapEff(st, eff, bt.Elem, regs, !ok)
		default:
			// pointer to array: global, local array alloc, or array field
			switch base := a.X.(type) {
			case *ssa.Global:
				eff.globals[base] = true
			case *ssa.Alloc:
				pt := tyFromGo(base.Type().(*types.Pointer).Elem())
				if inLoop.has(base) {
					x.addHeapEff(st, eff, pt.Elem, nil, false)
				} else if pa, ok := st.regs[base].(PArr); ok {
					x.addHeapEff(st, eff, pt.Elem, []*Term{pa.Reg}, false)
				} else {
					x.addHeapEff(st, eff, pt.Elem, nil, true)
				}
			default:
				pt := tyFromGo(a.X.Type().(*types.Pointer).Elem())
				if pt.K == TArray {
					x.addHeapEff(st, eff, pt.Elem, nil, true)
				} else {
					vfail("effects: store through %T", a.X)
				}
			}
		}
	case *ssa.FieldAddr:
		pt := tyFromGo(a.X.Type())
		if pt.K != TPtr {
			vfail("effects: field store on non-object")
		}
		var refs []*Term
		unknown := true
		if ld, ok := a.X.(*ssa.UnOp); ok && ld.Op == token.MUL {
			if oc, ok := ld.X.(*ssa.Alloc); ok && !inLoop.has(oc) && !eff.cells[oc] {
				if po, ok := st.cells[oc].(PObj); ok {
					refs = []*Term{po.Ref}
					unknown = false
				}
			}
		} else if !inLoop.has(a.X) {
			if po, ok := st.regs[a.X].(PObj); ok {
				refs = []*Term{po.Ref}
				unknown = false
			}
		} else if al, ok := a.X.(*ssa.Alloc); ok && al.Heap {
			unknown = false // fresh object
		}
		x.addFieldEff(st, eff, pt.Named, a.Field, refs, unknown)
	case *ssa.Global:
		eff.globals[a] = true
	default:
		vfail("effects: store to %T", addr)
	}
}

func (x *Exec) callEffect(st *State, i *ssa.Call, inLoop *loopCtx, fn *ssa.Function, eff *effects, depth int) {
	c := i.Common()
	if b, ok := c.Value.(*ssa.Builtin); ok {
		switch b.Name() {
		case "append":
			eff.allocs = true
			e := tyFromGo(c.Args[0].Type()).Elem
			regs, ok := x.rootRegion(st, c.Args[0], inLoop, fn, 0)
			x.addHeapEff(st, eff, e, regs, !ok)
		case "copy":
			e := tyFromGo(c.Args[0].Type()).Elem
			regs, ok := x.rootRegion(st, c.Args[0], inLoop, fn, 0)
			x.addHeapEff(st, eff, e, regs, !ok)
		}
		return
	}
	callee := c.StaticCallee()
	if callee == nil {
		if c.IsInvoke() {
			// interface method call: effect log only; assumed not to touch our memory
			return
		}
		// closure call through a cell: handled by the closure's contract
		if fs := x.closureSpec(st, i); fs != nil {
			x.contractEffect(st, fs, eff)
			return
		}
		vfail("effects: dynamic call %s", i)
	}
	if callee.Signature.Results().Len() == 0 && isTrivialNoop(callee) {
		return
	}
	fi := x.W.funcInfo(callee)
	if x.shouldInline(fi) {
		x.collectEffects(st, callee, callee.Blocks, &loopCtx{fn: callee, all: true}, eff, depth+1)
		return
	}
	if fi.Spec != nil {
		x.contractEffect(st, fi, eff)
		return
	}
	// a function of this module without contract (a helper introduced by a change) is executed
	// inline at call sites (callStatic): its effects are those of its body
	if callee.Blocks != nil && callee.Pkg != nil && strings.HasPrefix(callee.Pkg.Pkg.Path(), modPath) && depth < 4 && x.W.FuncSpecs[externKey(callee)] == nil {
		x.collectEffects(st, callee, callee.Blocks, &loopCtx{fn: callee, all: true}, eff, depth+1)
		return
	}
	if ext := x.W.FuncSpecs[externKey(callee)]; ext != nil {
		x.resultEffects(st, callee, eff)
		for _, c := range ext.Clauses {
			if c.Kind != "assigns" || strings.TrimSpace(c.Text) == "nothing" {
				continue
			}
			for _, it := range strings.Split(c.Text, ",") {
				it = strings.TrimSpace(it)
				if _, gfn, _, ok := x.ghostItem(nil, it); ok {
					x.addGhostEff(st, eff, gfn, nil, true)
					continue
				}
				done := false
				if strings.HasSuffix(it, "[*]") {
					base := strings.TrimSuffix(it, "[*]")
					for j, p := range ext.Params {
						if p.Name == base && j < len(c2args(i)) {
							t := tyFromGo(c2args(i)[j].Type())
							if t.K == TSlice {
								regs, ok := x.rootRegion(st, c2args(i)[j], inLoop, fn, 0)
								x.addHeapEff(st, eff, t.Elem, regs, !ok)
								done = true
							}
						}
					}
				}
				if !done {
					vfail("effects: cannot resolve assigns item %q of external %s", it, externKey(callee))
				}
			}
		}
		return
	}
	// unknown callee: results havocked; assumed not to write caller-visible memory only if it
	// takes no pointer-like arguments
	for _, a := range c.Args {
		// (a pointer-taking unknown callee fails an extern-frame obligation at the call site; here
		// its possible writes are approximated by the heaps of its argument types)
		x.typeHeapEffects(st, tyFromGo(a.Type()), eff)
	}
	x.resultEffects(st, callee, eff)
}

func c2args(i *ssa.Call) []ssa.Value { return i.Common().Args }

func (x *Exec) resultEffects(st *State, callee *ssa.Function, eff *effects) {
	res := callee.Signature.Results()
	for k := 0; k < res.Len(); k++ {
		x.typeHeapEffects(st, tyFromGo(res.At(k).Type()), eff)
	}
}

func (x *Exec) typeHeapEffects(st *State, t *STy, eff *effects) {
	if t.K == TSlice && !t.IsStr {
		eff.allocs = true
		x.addHeapEff(st, eff, t.Elem, nil, false)
		x.typeHeapEffects(st, t.Elem, eff)
	}
	if t.K == TSlice && t.IsStr {
		eff.allocs = true
		x.addHeapEff(st, eff, tyU8, nil, false)
	}
	if t.K == TPtr {
		eff.allocs = true
		s := t.Named.Underlying().(*types.Struct)
		for f := 0; f < s.NumFields(); f++ {
			ft := tyFromGo(s.Field(f).Type())
			if ft.K == TOpaque || ft.K == TStruct {
				continue
			}
			x.addFieldEff(st, eff, t.Named, f, nil, false)
			if ft.K == TPtr && ft.Named != t.Named {
				x.typeHeapEffects(st, ft, eff) // objects reachable from a fresh result may be fresh too
			}
			if ft.K == TArray {
				x.addHeapEff(st, eff, ft.Elem, nil, false)
			}
		}
	}
}

func (x *Exec) contractEffect(st *State, fi *FuncInfo, eff *effects) {
	x.resultEffects(st, fi.Fn, eff)
	for _, c := range fi.Spec.Clauses {
		if c.Kind == "assigns" && strings.TrimSpace(c.Text) != "nothing" {
			// conservative: everything the callee may assign is unknown here
			for _, it := range strings.Split(c.Text, ",") {
				x.assignTextEffect(st, fi, strings.TrimSpace(it), eff)
			}
		}
	}
}

// assignTextEffect registers heap keys touched by an assigns item of a callee (regions unknown).
func (x *Exec) assignTextEffect(st *State, fi *FuncInfo, it string, eff *effects) {
	fn := fi.Fn
	if _, gfn, _, ok := x.ghostItem(nil, it); ok {
		x.addGhostEff(st, eff, gfn, nil, true)
		return
	}
	if strings.HasSuffix(it, "[*]") {
		base := strings.TrimSuffix(it, "[*]")
		// find the type: param or field path
		if t := x.staticTypeOf(fn, base); t != nil && t.K == TSlice {
			x.addHeapEff(st, eff, t.Elem, nil, true)
			return
		}
		vfail("effects: cannot type assigns item %q of %s", it, fi.Key)
	}
	if k := strings.LastIndex(it, "."); k >= 0 {
		if t := x.staticTypeOf(fn, it[:k]); t != nil && t.K == TPtr {
			s := t.Named.Underlying().(*types.Struct)
			for i := 0; i < s.NumFields(); i++ {
				if s.Field(i).Name() == it[k+1:] {
					x.addFieldEff(st, eff, t.Named, i, nil, true)
					return
				}
			}
		}
	}
	pkg := fn.Pkg
	if pkg == nil && fn.Parent() != nil {
		pkg = fn.Parent().Pkg
	}
	if g, ok := pkg.Members[it].(*ssa.Global); ok {
		eff.globals[g] = true
		return
	}
	// captured variable of a closure
	for _, fv := range fn.FreeVars {
		if fv.Name() == it {
			if pc, ok := st.regs[fv].(PCell); ok {
				eff.cells[pc.A] = true
				return
			}
			// caller side: the binding cell
			return
		}
	}
	vfail("effects: cannot resolve assigns item %q of %s", it, fi.Key)
}

func (x *Exec) staticTypeOf(fn *ssa.Function, path string) *STy {
	parts := strings.Split(path, ".")
	var t *STy
	for _, p := range fn.Params {
		if p.Name() == parts[0] {
			t = tyFromGo(p.Type())
		}
	}
	if t == nil {
		for _, fv := range fn.FreeVars {
			if fv.Name() == parts[0] {
				t = tyFromGo(fv.Type().(*types.Pointer).Elem())
			}
		}
	}
	for _, f := range parts[1:] {
		if t == nil || t.K != TPtr {
			return nil
		}
		s := t.Named.Underlying().(*types.Struct)
		var nt *STy
		for i := 0; i < s.NumFields(); i++ {
			if s.Field(i).Name() == f {
				nt = tyFromGo(s.Field(i).Type())
			}
		}
		t = nt
	}
	return t
}

func externKey(fn *ssa.Function) string {
	if fn.Pkg != nil {
		return fn.Pkg.Pkg.Path() + "." + recvPrefix(fn) + fn.Name()
	}
	if fn.Object() != nil && fn.Object().Pkg() != nil {
		return fn.Object().Pkg().Path() + "." + recvPrefix(fn) + fn.Name()
	}
	return fn.String()
}

func (x *Exec) shouldInline(fi *FuncInfo) bool {
	if fi.Spec != nil {
		return fi.Spec.Inline
	}
	// closures without a contract are inlined
	return fi.Fn.Parent() != nil
}

type loopCtx struct {
	fn     *ssa.Function
	blocks map[*ssa.BasicBlock]bool
	all    bool
}

func (l *loopCtx) hasInstr(in ssa.Instruction) bool {
	if in.Block() == nil || in.Block().Parent() != l.fn {
		return false
	}
	return l.all || l.blocks[in.Block()]
}

func (l *loopCtx) has(v ssa.Value) bool {
	if in, ok := v.(ssa.Instruction); ok {
		return l.hasInstr(in)
	}
	return false
}

// checkMapEntries: "mapentries G (k, v) :: expr" - expr must hold for every entry of the map
// that the initialiser built and stored into package variable G.
func (x *Exec) checkMapEntries(st *State, fi *FuncInfo, c *Clause) {
	txt := strings.TrimSpace(c.Text)
	sep := strings.Index(txt, "::")
	if sep < 0 {
		vfail("%s: mapentries G (k, v) :: expr", c.Line)
	}
	hd := strings.Fields(strings.NewReplacer("(", " ", ")", " ", ",", " ").Replace(txt[:sep]))
	if len(hd) != 3 {
		vfail("%s: mapentries G (k, v) :: expr", c.Line)
	}
	e, err := ParseExpr(txt[sep+2:])
	if err != nil {
		vfail("%s: %v", c.Line, err)
	}
	g, ok := fi.Fn.Pkg.Members[hd[0]].(*ssa.Global)
	if !ok {
		vfail("%s: no package variable %s", c.Line, hd[0])
	}
	m, ok := st.globals[g].(*VMap)
	if !ok {
		x.oblige(st, "mapentries", "/"+hd[0], "the initialiser stores a map literal into "+hd[0], fi.Fn.Pos(), False)
		return
	}
	x.oblige(st, "mapentries", "/"+hd[0]+"/nonempty", "map "+hd[0]+" has entries", fi.Fn.Pos(), BoolConst(len(m.Keys) > 0))
	for j := range m.Keys {
		ev := &Env{W: x.W, st: st, pkg: fi.Fn.Pkg, bound: map[string]SVal{}}
		ev.bound[hd[1]] = toSVal(m.Keys[j], st)
		ev.bound[hd[2]] = toSVal(m.Vals[j], st)
		t, err := ev.EvalBool(e)
		if err != nil {
			vfail("%s: entry %d: %v", c.Line, j, err)
		}
		x.oblige(st, "mapentries", fmt.Sprintf("/%s#%d", hd[0], j), "entry of "+hd[0]+": "+strings.TrimSpace(txt[sep+2:]), fi.Fn.Pos(), t)
	}
}

func (x *Exec) retPos(s *State) token.Pos { return token.NoPos }
