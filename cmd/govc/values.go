package main

// Program values, symbolic state, spec-level types.

import (
	"fmt"
	"go/types"
	"strings"

	"golang.org/x/tools/go/ssa"
)

// ---------- spec-level types ----------

type TKind int

const (
	TInt TKind = iota
	TBool
	TSlice  // also strings (IsStr)
	TArray  // fixed-size array value (global tables)
	TPtr    // pointer to named struct
	TIface  // interface / error
	TOpaque // anything else
	TUntyped
	TStruct
)

type STy struct {
	K      TKind
	W      int
	Signed bool
	Elem   *STy
	IsStr  bool
	N      int64        // array length
	Named  *types.Named // for TPtr / TStruct
	GoT    types.Type
}

func (t *STy) String() string {
	switch t.K {
	case TInt:
		if t.Signed {
			return fmt.Sprintf("int%d", t.W)
		}
		return fmt.Sprintf("uint%d", t.W)
	case TBool:
		return "bool"
	case TSlice:
		if t.IsStr {
			return "string"
		}
		return "[]" + t.Elem.String()
	case TArray:
		return fmt.Sprintf("[%d]%s", t.N, t.Elem)
	case TPtr:
		return "*" + t.Named.Obj().Name()
	case TIface:
		return "iface"
	case TUntyped:
		return "untyped"
	case TStruct:
		return "struct"
	}
	return "opaque"
}

func intTy(w int, signed bool) *STy { return &STy{K: TInt, W: w, Signed: signed} }

var tyBool = &STy{K: TBool}
var tyInt = intTy(64, true)
var tyU8 = intTy(8, false)
var tyString = &STy{K: TSlice, IsStr: true, Elem: tyU8}

func sameTy(a, b *STy) bool {
	if a.K != b.K {
		return false
	}
	switch a.K {
	case TInt:
		return a.W == b.W && a.Signed == b.Signed
	case TSlice:
		return a.IsStr == b.IsStr && sameTy(a.Elem, b.Elem)
	case TArray:
		return a.N == b.N && sameTy(a.Elem, b.Elem)
	case TPtr, TStruct:
		return a.Named == b.Named
	}
	return true
}

func basicTy(name string) *STy {
	switch name {
	case "int", "int64":
		return intTy(64, true)
	case "int32":
		return intTy(32, true)
	case "int16":
		return intTy(16, true)
	case "int8":
		return intTy(8, true)
	case "uint", "uint64", "uintptr":
		return intTy(64, false)
	case "uint32":
		return intTy(32, false)
	case "uint16":
		return intTy(16, false)
	case "uint8", "byte":
		return intTy(8, false)
	case "bool":
		return tyBool
	case "string":
		return tyString
	case "error", "iface":
		return &STy{K: TIface}
	}
	return nil
}

// tyFromName parses type names used in the contract language.
func tyFromName(s string) *STy {
	if strings.HasPrefix(s, "[]") {
		e := tyFromName(s[2:])
		if e == nil {
			return nil
		}
		return &STy{K: TSlice, Elem: e}
	}
	return basicTy(s)
}

func tyFromGo(t types.Type) *STy {
	// reflect.Value is modelled as an opaque 32-bit handle (its behaviour is given by assumed
	// contracts of the reflect functions)
	if n, ok := t.(*types.Named); ok && n.Obj().Pkg() != nil && n.Obj().Pkg().Path() == "reflect" && n.Obj().Name() == "Value" {
		return &STy{K: TInt, W: 32, Signed: false, GoT: t}
	}
	switch u := t.Underlying().(type) {
	case *types.Basic:
		switch u.Kind() {
		case types.Bool, types.UntypedBool:
			return &STy{K: TBool, GoT: t}
		case types.String:
			return &STy{K: TSlice, IsStr: true, Elem: tyU8, GoT: t}
		case types.Int, types.Int64:
			return &STy{K: TInt, W: 64, Signed: true, GoT: t}
		case types.Int32:
			return &STy{K: TInt, W: 32, Signed: true, GoT: t}
		case types.Int16:
			return &STy{K: TInt, W: 16, Signed: true, GoT: t}
		case types.Int8:
			return &STy{K: TInt, W: 8, Signed: true, GoT: t}
		case types.Uint, types.Uint64, types.Uintptr:
			return &STy{K: TInt, W: 64, Signed: false, GoT: t}
		case types.Uint32:
			return &STy{K: TInt, W: 32, Signed: false, GoT: t}
		case types.Uint16:
			return &STy{K: TInt, W: 16, Signed: false, GoT: t}
		case types.Uint8:
			return &STy{K: TInt, W: 8, Signed: false, GoT: t}
		case types.UnsafePointer:
			return &STy{K: TOpaque, GoT: t}
		}
	case *types.Slice:
		return &STy{K: TSlice, Elem: tyFromGo(u.Elem()), GoT: t}
	case *types.Array:
		return &STy{K: TArray, Elem: tyFromGo(u.Elem()), N: u.Len(), GoT: t}
	case *types.Pointer:
		if n, ok := u.Elem().(*types.Named); ok {
			if _, ok := n.Underlying().(*types.Struct); ok {
				return &STy{K: TPtr, Named: n, GoT: t}
			}
		}
		return &STy{K: TOpaque, GoT: t}
	case *types.Interface:
		return &STy{K: TIface, GoT: t}
	case *types.Struct:
		if n, ok := t.(*types.Named); ok {
			return &STy{K: TStruct, Named: n, GoT: t}
		}
	}
	return &STy{K: TOpaque, GoT: t}
}

// scalarSort gives the SMT sort of a scalar spec type.
func (t *STy) scalarSort() *Sort {
	switch t.K {
	case TInt:
		return BV(t.W)
	case TBool:
		return BoolSort
	case TPtr:
		return RegSort
	case TIface:
		return IfaceSort
	}
	return nil
}

var IfaceSort = BV(32) // interface/error values: an identity id; 0 = nil

// heap key for elements of slice element type t (scalar elements only here)
func heapKey(t *STy, comp string) string {
	k := "H:" + t.String()
	if comp != "" {
		k += "." + comp
	}
	return k
}

// ---------- program values ----------

type Value interface{}

type VScalar struct {
	T  *Term
	Ty *STy
}
type VSlice struct {
	Reg, Off, Len, Cap *Term
	Ty                 *STy // TSlice (IsStr for strings; then Cap == Len)
}
type VTuple struct{ Vs []Value }

// VRangeIter: the iterator of a range over a string or map (abstracted, see *ssa.Next)
type VRangeIter struct {
	X Value
	T types.Type
}
type VArr struct { // array value (global tables, loaded arrays)
	Arr *Term
	Ty  *STy
}
type VStruct struct {
	Fs []Value
	Ty *STy
}
type VNilPtr struct{ Ty *STy }
type VClosure struct {
	Fn    *ssa.Function
	Binds []Value
}
type VOpaque struct {
	Ty   *STy
	Note string
}

// pointers
type PCell struct{ A *ssa.Alloc }
type PCellField struct { // field of a struct value held in a local cell
	A     *ssa.Alloc
	Field int
}
type PSliceHdrObj struct{ Obj PObj } // &struct{string; int} reinterpreted through unsafe as *[]byte
type PElem struct { // element idx (absolute offset) of region Reg in the heap of Ty
	Reg, Idx *Term
	Ty       *STy // element type
}
type PArr struct { // pointer to an array occupying region Reg from offset Off
	Reg, Off *Term
	Ty       *STy // TArray
}
type PGlobal struct{ G *ssa.Global }
type PGlobalElem struct {
	G   *ssa.Global
	Idx *Term
}
type PObj struct { // pointer to a heap struct object
	Ref *Term
	Ty  *STy // TPtr
}
type PField struct {
	Obj   PObj
	Field int
}
type PStrHdr struct{ S VSlice } // &stringvar reinterpreted through unsafe (StrCmpUpto)

// ---------- state ----------

type Effect struct {
	Kind string // e.g. "io.Writer.Write"
	Recv *Term
	Args []Value
	Rets []Value
	Heap map[string]*Term // heaps at the time of the call
}

type State struct {
	cells   map[*ssa.Alloc]Value
	regs    map[ssa.Value]Value
	heaps   map[string]*Term
	globals map[*ssa.Global]Value
	alloc   *Term
	hyps    []*Term
	path    []string
	effects []Effect
	dead    bool
	retTag  string
	boxed   map[*Term]Value // payloads of interface values created by MakeInterface
}

func (s *State) clone() *State {
	n := &State{
		cells:   make(map[*ssa.Alloc]Value, len(s.cells)),
		regs:    make(map[ssa.Value]Value, len(s.regs)),
		heaps:   make(map[string]*Term, len(s.heaps)),
		globals: make(map[*ssa.Global]Value, len(s.globals)),
		alloc:   s.alloc,
	}
	for k, v := range s.cells {
		n.cells[k] = v
	}
	for k, v := range s.regs {
		n.regs[k] = v
	}
	for k, v := range s.heaps {
		n.heaps[k] = v
	}
	for k, v := range s.globals {
		n.globals[k] = v
	}
	if s.boxed != nil {
		n.boxed = make(map[*Term]Value, len(s.boxed))
		for k, v := range s.boxed {
			n.boxed[k] = v
		}
	}
	n.hyps = append([]*Term(nil), s.hyps...)
	n.path = append([]string(nil), s.path...)
	n.effects = append([]Effect(nil), s.effects...)
	return n
}

func (s *State) assume(t *Term) {
	if t == True {
		return
	}
	s.hyps = append(s.hyps, t)
}

// heap returns the current heap term for key, creating the initial symbolic heap on demand.
func (s *State) heap(key string, elem *Sort) *Term {
	if h, ok := s.heaps[key]; ok {
		return h
	}
	h := Var(key+"@0", ArrSort(RegSort, ArrSort(IdxSort, elem)))
	s.heaps[key] = h
	return h
}

// field heap: Array Ref elem
func (s *State) fheap(key string, elem *Sort) *Term {
	if h, ok := s.heaps[key]; ok {
		return h
	}
	h := Var(key+"@0", ArrSort(RegSort, elem))
	s.heaps[key] = h
	return h
}

func initialHeapVar(key string, elem *Sort, field bool) *Term {
	if field {
		return Var(key+"@0", ArrSort(RegSort, elem))
	}
	return Var(key+"@0", ArrSort(RegSort, ArrSort(IdxSort, elem)))
}
