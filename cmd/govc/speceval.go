package main

// Evaluation of contract expressions to SMT terms in a symbolic state.

import (
	"fmt"
	"go/types"
	"math/big"
	"strings"

	"golang.org/x/tools/go/ssa"
)

// spec-level values
type SVal interface{}

type SInt struct {
	T  *Term
	Ty *STy
}
type SBool struct{ T *Term }
type SUntyped struct{ V *big.Int }
type SSlice struct { // slice/string viewed as (array, off, len); Reg/Cap optional
	Arr, Off, Len *Term
	Reg, Cap      *Term
	Ty            *STy
	// for nested element types the element headers are read through st
	st *State
}
type SArr struct {
	Arr *Term
	Ty  *STy
}
type SPtr struct {
	Ref *Term
	Ty  *STy
	st  *State
}
type SIface struct{ T *Term }
type SStruct struct {
	V  VStruct
	st *State
}

type specErr struct{ msg string }

func sfail(f string, a ...interface{}) { panic(specErr{fmt.Sprintf(f, a...)}) }

type Env struct {
	W      *World
	st     *State // state for heap reads / current cell values
	old    *State // entry state (nil = same as st)
	pkg    *ssa.Package
	lookup func(name string, st *State, isOld bool) (Value, bool)
	bound  map[string]SVal
	depth  int
	cc     *contractCalls // non-nil inside lemmas: real functions may be mentioned through their contracts
}

type contractCalls struct {
	goals []*Term
	hyps  []*Term
	memo  map[string]SVal
	used  map[string]bool
}

type STuple struct {
	Names []string
	Vals  []SVal
}

func (ev *Env) with(name string, v SVal) *Env {
	n := *ev
	n.bound = map[string]SVal{}
	for k, x := range ev.bound {
		n.bound[k] = x
	}
	n.bound[name] = v
	return &n
}

func (ev *Env) EvalBool(e Expr) (t *Term, err error) {
	defer func() {
		if r := recover(); r != nil {
			if se, ok := r.(specErr); ok {
				err = fmt.Errorf("%s", se.msg)
				return
			}
			panic(r)
		}
	}()
	v := ev.eval(e)
	b, ok := v.(SBool)
	if !ok {
		sfail("expression is not boolean")
	}
	return b.T, nil
}

func (ev *Env) EvalVal(e Expr) (v SVal, err error) {
	defer func() {
		if r := recover(); r != nil {
			if se, ok := r.(specErr); ok {
				err = fmt.Errorf("%s", se.msg)
				return
			}
			panic(r)
		}
	}()
	return ev.eval(e), nil
}

// toSVal converts a program value into a spec value w.r.t. the heaps of st.
func toSVal(v Value, st *State) SVal {
	switch x := v.(type) {
	case SInt, SBool, SSlice, SArr, SPtr, SIface, SStruct, SUntyped, STuple:
		return x
	case VScalar:
		switch x.Ty.K {
		case TBool:
			return SBool{x.T}
		case TInt:
			return SInt{x.T, x.Ty}
		case TIface:
			return SIface{x.T}
		case TPtr:
			return SPtr{x.T, x.Ty, st}
		}
		sfail("scalar of unsupported type %s", x.Ty)
	case VSlice:
		return sliceToS(x, st)
	case VArr:
		return SArr{x.Arr, x.Ty}
	case PObj:
		return SPtr{x.Ref, x.Ty, st}
	case VIfaceObj:
		// an interface value known to hold a pointer to a struct: fields are accessible
		return SPtr{x.Obj.Ref, x.Obj.Ty, st}
	case VStruct:
		return SStruct{x, st}
	case PArr:
		// an array living in a heap region (array field of an object, local array): viewed as a slice
		return sliceToS(VSlice{Reg: x.Reg, Off: x.Off, Len: BVInt(x.Ty.N, 64), Cap: BVInt(x.Ty.N, 64), Ty: &STy{K: TSlice, Elem: x.Ty.Elem}}, st)
	case PGlobal:
		return toSVal(st.globals[x.G], st)
	}
	sfail("cannot use program value %T in a contract", v)
	return nil
}

func sliceToS(x VSlice, st *State) SVal {
	e := x.Ty.Elem
	s := SSlice{Off: x.Off, Len: x.Len, Reg: x.Reg, Cap: x.Cap, Ty: x.Ty, st: st}
	if srt := e.scalarSort(); srt != nil {
		s.Arr = Select(st.heap(heapKey(e, ""), srt), Mark(x.Reg, "reg"))
	}
	return s
}

func (ev *Env) adapt(a, b SVal) (SVal, SVal) {
	ua, aok := a.(SUntyped)
	ub, bok := b.(SUntyped)
	if aok && !bok {
		if bi, ok := b.(SInt); ok {
			return SInt{BVConst(ua.V, bi.Ty.W), bi.Ty}, b
		}
	}
	if bok && !aok {
		if ai, ok := a.(SInt); ok {
			return a, SInt{BVConst(ub.V, ai.Ty.W), ai.Ty}
		}
	}
	return a, b
}

func to64(v SVal) *Term {
	switch x := v.(type) {
	case SUntyped:
		return BVConst(x.V, 64)
	case SInt:
		if x.Ty.Signed {
			return SExt(x.T, 64)
		}
		return ZExt(x.T, 64)
	}
	sfail("index is not an integer")
	return nil
}

func convInt(v SVal, to *STy) SVal {
	switch x := v.(type) {
	case SUntyped:
		return SInt{BVConst(x.V, to.W), to}
	case SInt:
		if x.Ty.W >= to.W {
			return SInt{Extract(to.W-1, 0, x.T), to}
		}
		if x.Ty.Signed {
			return SInt{SExt(x.T, to.W), to}
		}
		return SInt{ZExt(x.T, to.W), to}
	case SBool:
		sfail("cannot convert bool to %s", to)
	}
	sfail("cannot convert %T to %s", v, to)
	return nil
}

func (ev *Env) eval(e Expr) SVal {
	switch x := e.(type) {
	case *ELit:
		return SUntyped{x.V}
	case *EBool:
		return SBool{BoolConst(x.V)}
	case *EIdent:
		return ev.ident(x.Name)
	case *EUn:
		v := ev.eval(x.X)
		switch x.Op {
		case "!":
			b, ok := v.(SBool)
			if !ok {
				sfail("! on non-bool")
			}
			return SBool{Not(b.T)}
		case "-":
			switch y := v.(type) {
			case SUntyped:
				return SUntyped{new(big.Int).Neg(y.V)}
			case SInt:
				return SInt{BVNeg(y.T), y.Ty}
			}
		case "^":
			switch y := v.(type) {
			case SUntyped:
				return SUntyped{new(big.Int).Not(y.V)}
			case SInt:
				return SInt{BVNot(y.T), y.Ty}
			}
		}
		sfail("bad unary %s", x.Op)
	case *EBin:
		return ev.bin(x)
	case *ECall:
		return ev.call(x)
	case *EIndex:
		base := ev.eval(x.X)
		idx := to64(ev.eval(x.I))
		switch b := base.(type) {
		case SSlice:
			return ev.sliceIndex(b, idx)
		case SArr:
			return fromElem(Select(b.Arr, Mark(idx, "s64")), b.Ty.Elem)
		}
		sfail("indexing non-slice %T", base)
	case *ESlice:
		base := ev.eval(x.X)
		b, ok := base.(SSlice)
		if !ok {
			sfail("slicing non-slice")
		}
		lo := BVInt(0, 64)
		hi := b.Len
		if x.Lo != nil {
			lo = to64(ev.eval(x.Lo))
		}
		if x.Hi != nil {
			hi = to64(ev.eval(x.Hi))
		}
		n := b
		n.Off = BVBin("bvadd", b.Off, lo)
		n.Len = BVBin("bvsub", hi, lo)
		if b.Cap != nil {
			n.Cap = BVBin("bvsub", b.Cap, lo)
		}
		return n
	case *EField:
		// package-qualified global or spec const
		if id, ok := x.X.(*EIdent); ok {
			if _, isBound := ev.bound[id.Name]; !isBound {
				if v, ok := ev.qualified(id.Name, x.Name); ok {
					return v
				}
			}
		}
		base := ev.eval(x.X)
		switch b := base.(type) {
		case STuple:
			for i, n := range b.Names {
				if n == x.Name {
					return b.Vals[i]
				}
			}
			sfail("no result %q", x.Name)
		case SPtr:
			return ev.fieldRead(b, x.Name)
		case SStruct:
			st := b.V.Ty.Named.Underlying().(*types.Struct)
			for i := 0; i < st.NumFields(); i++ {
				if st.Field(i).Name() == x.Name {
					return toSVal(b.V.Fs[i], b.st)
				}
			}
		}
		sfail("field %s of %T", x.Name, base)
	case *EQuant:
		nev := ev
		var vars []*Term
		for _, p := range x.Vars {
			ty := tyFromName(p.Type)
			if ty == nil || ty.scalarSort() == nil {
				sfail("quantified variable %s has unsupported type %q", p.Name, p.Type)
			}
			bv := BoundVar(p.Name, ty.scalarSort(), tyKey(ty))
			vars = append(vars, bv)
			switch ty.K {
			case TBool:
				nev = nev.with(p.Name, SBool{bv})
			case TIface:
				nev = nev.with(p.Name, SIface{bv})
			default:
				nev = nev.with(p.Name, SInt{bv, ty})
			}
		}
		body := nev.eval(x.Body)
		b, ok := body.(SBool)
		if !ok {
			sfail("quantifier body not boolean")
		}
		if x.Forall {
			return SBool{Forall(vars, b.T)}
		}
		return SBool{Exists(vars, b.T)}
	}
	sfail("cannot evaluate %T", e)
	return nil
}

func fromElem(t *Term, ty *STy) SVal {
	switch ty.K {
	case TBool:
		return SBool{t}
	case TInt:
		return SInt{t, ty}
	case TIface:
		return SIface{t}
	}
	sfail("element type %s unsupported", ty)
	return nil
}

func (ev *Env) sliceIndex(b SSlice, idx *Term) SVal {
	e := b.Ty.Elem
	pos := BVBin("bvadd", b.Off, Mark(idx, "s64"))
	if e.scalarSort() != nil && e.K != TPtr {
		return fromElem(Select(b.Arr, pos), e)
	}
	if e.K == TSlice {
		if b.st == nil || b.Reg == nil {
			sfail("nested slice without state")
		}
		v := loadElem(b.st, e, b.Reg, pos)
		return toSVal(v, b.st)
	}
	sfail("indexing slice of %s", e)
	return nil
}

func (ev *Env) fieldRead(p SPtr, name string) SVal {
	st := p.Ty.Named.Underlying().(*types.Struct)
	for i := 0; i < st.NumFields(); i++ {
		if st.Field(i).Name() == name {
			v := loadField(p.st, p.Ty.Named, i, p.Ref)
			return toSVal(v, p.st)
		}
	}
	// promoted field through embedded pointer
	for i := 0; i < st.NumFields(); i++ {
		f := st.Field(i)
		if f.Embedded() {
			ety := tyFromGo(f.Type())
			if ety.K == TPtr {
				inner := loadField(p.st, p.Ty.Named, i, p.Ref)
				if sp, ok := toSVal(inner, p.st).(SPtr); ok {
					return ev.fieldRead(sp, name)
				}
			}
		}
	}
	sfail("no field %s in %s", name, p.Ty.Named.Obj().Name())
	return nil
}

func (ev *Env) ident(name string) SVal {
	if v, ok := ev.bound[name]; ok {
		return v
	}
	if name == "nil" {
		return SIface{BVInt(0, 32)}
	}
	if ev.lookup != nil {
		if v, ok := ev.lookup(name, ev.st, false); ok {
			return toSVal(v, ev.st)
		}
	}
	if ev.pkg != nil {
		if v, ok := ev.qualified("", name); ok {
			return v
		}
	}
	if c, ok := ev.W.SpecConsts[name]; ok {
		return c
	}
	sfail("unknown identifier %q", name)
	return nil
}

// qualified resolves pkg.Name (or Name in the current package) to a global variable,
// constant or error value.
func (ev *Env) qualified(pkgName, name string) (SVal, bool) {
	var pkg *ssa.Package
	if pkgName == "" {
		pkg = ev.pkg
	} else {
		for _, p := range ev.W.Prog.AllPackages() {
			if p.Pkg.Name() == pkgName {
				// prefer imports of current package
				if pkg == nil || (ev.pkg != nil && importsPkg(ev.pkg, p)) {
					pkg = p
				}
			}
		}
	}
	if pkg == nil {
		return nil, false
	}
	m := pkg.Members[name]
	switch g := m.(type) {
	case *ssa.Global:
		v := ev.W.globalValue(ev.st, g)
		return toSVal(v, ev.st), true
	case *ssa.NamedConst:
		c := g.Value
		ty := tyFromGo(c.Type())
		if ty.K == TInt {
			return SInt{constTerm(c, ty), ty}, true
		}
		if b, ok := c.Type().Underlying().(*types.Basic); ok && b.Info()&types.IsUntyped != 0 && b.Info()&types.IsInteger != 0 {
			return SUntyped{constBig(c)}, true
		}
	}
	return nil, false
}

func importsPkg(a, b *ssa.Package) bool {
	for _, im := range a.Pkg.Imports() {
		if im == b.Pkg {
			return true
		}
	}
	return false
}

func (ev *Env) bin(x *EBin) SVal {
	switch x.Op {
	case "&&", "||", "==>", "<==>":
		l, lok := ev.eval(x.L).(SBool)
		if lok {
			// short-circuit on constants: the right operand may not be evaluable on this path
			// (e.g. callarg(0, ..) when no call was logged)
			switch {
			case x.Op == "&&" && l.T == False:
				return SBool{False}
			case x.Op == "||" && l.T == True:
				return SBool{True}
			case x.Op == "==>" && l.T == False:
				return SBool{True}
			}
		}
		r, rok := ev.eval(x.R).(SBool)
		if !lok || !rok {
			sfail("%s on non-bool operands", x.Op)
		}
		switch x.Op {
		case "&&":
			return SBool{And(l.T, r.T)}
		case "||":
			return SBool{Or(l.T, r.T)}
		case "==>":
			return SBool{Implies(l.T, r.T)}
		default:
			return SBool{Eq(l.T, r.T)}
		}
	}
	l, r := ev.eval(x.L), ev.eval(x.R)
	if x.Op == "<<" || x.Op == ">>" {
		lu, lok := l.(SUntyped)
		ru, rok := r.(SUntyped)
		if lok && rok {
			if x.Op == "<<" {
				return SUntyped{new(big.Int).Lsh(lu.V, uint(ru.V.Int64()))}
			}
			return SUntyped{new(big.Int).Rsh(lu.V, uint(ru.V.Int64()))}
		}
		li, ok := l.(SInt)
		if !ok {
			sfail("shift of untyped constant by variable count: add a conversion")
		}
		var cnt *Term
		switch c := r.(type) {
		case SUntyped:
			cnt = BVConst(c.V, li.Ty.W)
		case SInt:
			cnt = shiftCount(c.T, c.Ty.W, li.Ty.W)
		default:
			sfail("bad shift count")
		}
		op := "bvshl"
		if x.Op == ">>" {
			op = "bvlshr"
			if li.Ty.Signed {
				op = "bvashr"
			}
		}
		return SInt{BVBin(op, li.T, cnt), li.Ty}
	}
	l, r = ev.adapt(l, r)
	if lu, ok := l.(SUntyped); ok {
		ru, ok2 := r.(SUntyped)
		if !ok2 {
			sfail("mixing untyped constant with %T", r)
		}
		a, b := lu.V, ru.V
		z := new(big.Int)
		switch x.Op {
		case "+":
			return SUntyped{z.Add(a, b)}
		case "-":
			return SUntyped{z.Sub(a, b)}
		case "*":
			return SUntyped{z.Mul(a, b)}
		case "/":
			return SUntyped{z.Quo(a, b)}
		case "%":
			return SUntyped{z.Rem(a, b)}
		case "&":
			return SUntyped{z.And(a, b)}
		case "|":
			return SUntyped{z.Or(a, b)}
		case "^":
			return SUntyped{z.Xor(a, b)}
		case "&^":
			return SUntyped{z.AndNot(a, b)}
		case "==":
			return SBool{BoolConst(a.Cmp(b) == 0)}
		case "!=":
			return SBool{BoolConst(a.Cmp(b) != 0)}
		case "<":
			return SBool{BoolConst(a.Cmp(b) < 0)}
		case "<=":
			return SBool{BoolConst(a.Cmp(b) <= 0)}
		case ">":
			return SBool{BoolConst(a.Cmp(b) > 0)}
		case ">=":
			return SBool{BoolConst(a.Cmp(b) >= 0)}
		}
	}
	switch lv := l.(type) {
	case SBool:
		rv, ok := r.(SBool)
		if !ok {
			sfail("bool %s non-bool", x.Op)
		}
		switch x.Op {
		case "==":
			return SBool{Eq(lv.T, rv.T)}
		case "!=":
			return SBool{Not(Eq(lv.T, rv.T))}
		}
	case SIface:
		rv, ok := r.(SIface)
		if rp, isP := r.(SPtr); isP {
			rv, ok = SIface{rp.Ref}, true
		}
		if !ok {
			sfail("iface %s non-iface", x.Op)
		}
		switch x.Op {
		case "==":
			return SBool{Eq(lv.T, rv.T)}
		case "!=":
			return SBool{Not(Eq(lv.T, rv.T))}
		}
	case SPtr:
		rv, ok := r.(SPtr)
		if ri, isI := r.(SIface); isI {
			rv, ok = SPtr{Ref: ri.T}, true // comparison with nil / an interface identity
		}
		if !ok {
			sfail("ptr %s non-ptr", x.Op)
		}
		switch x.Op {
		case "==":
			return SBool{Eq(lv.Ref, rv.Ref)}
		case "!=":
			return SBool{Not(Eq(lv.Ref, rv.Ref))}
		}
	case SInt:
		rv, ok := r.(SInt)
		if !ok {
			sfail("int %s %T", x.Op, r)
		}
		if !sameTy(lv.Ty, rv.Ty) {
			sfail("mismatched integer types %s %s %s in contract expression", lv.Ty, x.Op, rv.Ty)
		}
		s := lv.Ty.Signed
		pick := func(sn, un string) string {
			if s {
				return sn
			}
			return un
		}
		switch x.Op {
		case "+":
			return SInt{BVBin("bvadd", lv.T, rv.T), lv.Ty}
		case "-":
			return SInt{BVBin("bvsub", lv.T, rv.T), lv.Ty}
		case "*":
			return SInt{BVBin("bvmul", lv.T, rv.T), lv.Ty}
		case "/":
			return SInt{BVBin(pick("bvsdiv", "bvudiv"), lv.T, rv.T), lv.Ty}
		case "%":
			return SInt{BVBin(pick("bvsrem", "bvurem"), lv.T, rv.T), lv.Ty}
		case "&":
			return SInt{BVBin("bvand", lv.T, rv.T), lv.Ty}
		case "|":
			return SInt{BVBin("bvor", lv.T, rv.T), lv.Ty}
		case "^":
			return SInt{BVBin("bvxor", lv.T, rv.T), lv.Ty}
		case "&^":
			return SInt{BVBin("bvand", lv.T, BVNot(rv.T)), lv.Ty}
		case "==":
			return SBool{Eq(lv.T, rv.T)}
		case "!=":
			return SBool{Not(Eq(lv.T, rv.T))}
		case "<":
			return SBool{BVCmp(pick("bvslt", "bvult"), lv.T, rv.T)}
		case "<=":
			return SBool{BVCmp(pick("bvsle", "bvule"), lv.T, rv.T)}
		case ">":
			return SBool{BVCmp(pick("bvsgt", "bvugt"), lv.T, rv.T)}
		case ">=":
			return SBool{BVCmp(pick("bvsge", "bvuge"), lv.T, rv.T)}
		}
	}
	sfail("bad binary %s on %T, %T", x.Op, l, r)
	return nil
}

// shiftCount converts a shift count of width cw to operand width w with Go semantics
// (counts >= w must still be >= w after conversion).
func shiftCount(c *Term, cw, w int) *Term {
	if cw == w {
		return c
	}
	if cw < w {
		return ZExt(c, w)
	}
	// cw > w: saturate
	big := BVCmp("bvuge", c, BVInt(int64(w), cw))
	return Ite(big, BVInt(int64(w), w), Extract(w-1, 0, c))
}

func (ev *Env) call(x *ECall) SVal {
	// conversions
	if ty := basicTy(x.Fn); ty != nil && ty.K == TInt && len(x.Args) == 1 {
		return convInt(ev.eval(x.Args[0]), ty)
	}
	if ev.W.concreteMode {
		switch x.Fn {
		case "fresh", "allocated", "sameslice":
			// region identities are not observable in a concrete replay: undetermined
			return SBool{FreshVar("undet", BoolSort)}
		case "regof", "offof":
			return SInt{FreshVar("undet", BV(64)), tyInt}
		}
	}
	switch x.Fn {
	case "old":
		if len(x.Args) != 1 {
			sfail("old(e)")
		}
		if ev.old == nil {
			return ev.eval(x.Args[0])
		}
		n := *ev
		n.st = ev.old
		n.lookup = func(name string, st *State, isOld bool) (Value, bool) { return ev.lookup(name, ev.old, true) }
		return n.eval(x.Args[0])
	case "len", "cap":
		v := ev.eval(x.Args[0])
		switch s := v.(type) {
		case SSlice:
			if x.Fn == "cap" {
				if s.Cap == nil {
					sfail("cap of spec slice")
				}
				return SInt{s.Cap, tyInt}
			}
			return SInt{s.Len, tyInt}
		case SArr:
			return SInt{BVInt(s.Ty.N, 64), tyInt}
		}
		sfail("len of %T", v)
	case "cand":
		// cand(e) is e; the term is offered as an instantiation candidate to every quantifier over
		// its type (a proof hint inside specifications, no logical content)
		if len(x.Args) != 1 {
			sfail("cand(e)")
		}
		v := ev.eval(x.Args[0])
		if si, ok := v.(SInt); ok {
			return SInt{Mark(si.T, tyKey(si.Ty)+"^"), si.Ty}
		}
		return v
	case "ite":
		c, ok := ev.eval(x.Args[0]).(SBool)
		if !ok {
			sfail("ite condition not bool")
		}
		a, b := ev.adapt(ev.eval(x.Args[1]), ev.eval(x.Args[2]))
		switch av := a.(type) {
		case SInt:
			bv, ok := b.(SInt)
			if !ok || !sameTy(av.Ty, bv.Ty) {
				sfail("ite branches differ in type")
			}
			return SInt{Ite(c.T, av.T, bv.T), av.Ty}
		case SBool:
			return SBool{Ite(c.T, av.T, b.(SBool).T)}
		case SIface:
			bv, ok := b.(SIface)
			if !ok {
				sfail("ite branches differ in type")
			}
			return SIface{Ite(c.T, av.T, bv.T)}
		case SUntyped:
			sfail("ite with two untyped constants: convert one")
		}
		sfail("ite on %T", a)
	case "fresh":
		v := ev.eval(x.Args[0])
		s, ok := v.(SSlice)
		if p, isP := v.(SPtr); isP {
			s, ok = SSlice{Reg: p.Ref}, true // an object allocated by this call
		}
		if !ok || s.Reg == nil {
			sfail("fresh(slice)")
		}
		base := ev.st
		if ev.old != nil {
			base = ev.old
		}
		if base.alloc == nil {
			return SBool{True} // contract mentioned inside a lemma: no allocation state
		}
		res := BVCmp("bvuge", s.Reg, base.alloc)
		if p, isP := v.(SPtr); isP && p.Ty != nil && p.Ty.Named != nil {
			// arrays embedded in a fresh object are fresh storage as well
			if sd, ok := p.Ty.Named.Underlying().(*types.Struct); ok {
				for f := 0; f < sd.NumFields(); f++ {
					if tyFromGo(sd.Field(f).Type()).K == TArray {
						if pa, ok := loadField(ev.st, p.Ty.Named, f, p.Ref).(PArr); ok {
							res = And(res, BVCmp("bvuge", pa.Reg, base.alloc))
						}
					}
				}
			}
		}
		return SBool{res}
	case "allocated":
		// the slice's region was allocated before the current program point
		v := ev.eval(x.Args[0])
		sl, ok := v.(SSlice)
		if !ok || sl.Reg == nil {
			sfail("allocated(slice)")
		}
		if ev.st.alloc == nil {
			return SBool{True}
		}
		return SBool{BVCmp("bvult", sl.Reg, ev.st.alloc)}
	case "sameslice":
		a, aok := ev.eval(x.Args[0]).(SSlice)
		b, bok := ev.eval(x.Args[1]).(SSlice)
		if !aok || !bok || a.Reg == nil || b.Reg == nil {
			sfail("sameslice(a, b)")
		}
		return SBool{And(Eq(a.Reg, b.Reg), Eq(a.Off, b.Off), Eq(a.Len, b.Len))}
	case "regof":
		a, aok := ev.eval(x.Args[0]).(SSlice)
		if !aok || a.Reg == nil {
			sfail("regof(slice)")
		}
		return SInt{a.Reg, intTy(32, false)}
	case "offof":
		a, aok := ev.eval(x.Args[0]).(SSlice)
		if !aok {
			sfail("offof(slice)")
		}
		return SInt{a.Off, tyInt}
	}
	if x.Fn == "ncalls" || x.Fn == "callarg" || x.Fn == "callret" {
		return ev.effectQuery(x)
	}
	fn, ok := ev.W.SpecFns[x.Fn]
	if !ok {
		if ev.cc != nil {
			if fs := ev.W.contractByShortName(x.Fn); fs != nil {
				return ev.contractCall(fs, x)
			}
		}
		sfail("unknown function %q in contract", x.Fn)
	}
	if len(x.Args) != len(fn.Params) {
		sfail("%s: expected %d args", x.Fn, len(fn.Params))
	}
	args := make([]SVal, len(x.Args))
	for i, a := range x.Args {
		args[i] = ev.coerce(ev.eval(a), fn.Params[i].Type, x.Fn)
	}
	return ev.W.applySpecFn(ev, fn, args)
}

func (ev *Env) coerce(v SVal, tyName string, fn string) SVal {
	if strings.HasPrefix(tyName, "*") {
		if _, ok := v.(SPtr); ok {
			return v // pointer parameters of (inlined) spec predicates
		}
		sfail("%s: argument must be a pointer to %s", fn, tyName[1:])
	}
	ty := tyFromName(tyName)
	if ty == nil {
		sfail("%s: unknown parameter type %q", fn, tyName)
	}
	switch x := v.(type) {
	case SUntyped:
		if ty.K == TInt {
			return SInt{BVConst(x.V, ty.W), ty}
		}
	case SInt:
		if ty.K == TInt && ty.W == x.Ty.W && ty.Signed == x.Ty.Signed {
			return v
		}
		sfail("%s: argument of type %s where %s expected", fn, x.Ty, ty)
	case SBool:
		if ty.K == TBool {
			return v
		}
	case SSlice:
		if ty.K == TSlice {
			if ty.IsStr || x.Ty.IsStr || sameTy(ty.Elem, x.Ty.Elem) {
				if sameTy(ty.Elem, x.Ty.Elem) {
					return v
				}
			}
		}
		sfail("%s: slice argument %s where %s expected", fn, x.Ty, ty)
	case SArr:
		// an array may be passed where a slice is expected
		if ty.K == TSlice && sameTy(ty.Elem, x.Ty.Elem) {
			return SSlice{Arr: x.Arr, Off: BVInt(0, 64), Len: BVInt(x.Ty.N, 64), Ty: &STy{K: TSlice, Elem: x.Ty.Elem}}
		}
	case SIface:
		if ty.K == TIface {
			return v
		}
	}
	sfail("%s: cannot pass %T as %s", fn, v, tyName)
	return nil
}

// stableEntryHeaps: set while verifying a function whose frame is "assigns nothing"
var stableEntryHeaps bool

// isEntryParamSlice: the slice header is a parameter of the function under verification
// (parameters are named <name>.reg; values created later carry a !n suffix)
func isEntryParamSlice(x SSlice) bool {
	return x.Reg != nil && x.Reg.Op == "var" && strings.HasSuffix(x.Reg.Name, ".reg") && !strings.Contains(x.Reg.Name, "!")
}

// flatten a spec value into SMT arguments
func flatten(v SVal) []*Term {
	switch x := v.(type) {
	case SInt:
		return []*Term{Mark(x.T, tyKey(x.Ty))}
	case SBool:
		return []*Term{x.T}
	case SIface:
		return []*Term{x.T}
	case SSlice:
		if x.Arr != nil {
			return []*Term{x.Arr, x.Off, x.Len}
		}
		// nested: element header heaps + inner heap
		e := x.Ty.Elem
		if e.K == TSlice && e.Elem.scalarSort() != nil {
			st := x.st
			if stableEntryHeaps && isEntryParamSlice(x) {
				// a nested-slice parameter of a function with frame "assigns nothing": the element
				// headers and contents that existed at entry are never changed, so the entry heaps
				// stand for the current ones (keeps f(subs) one term across allocations and stores
				// to fresh memory)
				return []*Term{
					Select(initialHeapVar(heapKey(e, "reg"), RegSort, false), Mark(x.Reg, "reg")),
					Select(initialHeapVar(heapKey(e, "off"), IdxSort, false), Mark(x.Reg, "reg")),
					Select(initialHeapVar(heapKey(e, "len"), IdxSort, false), Mark(x.Reg, "reg")),
					x.Off, x.Len,
					initialHeapVar(heapKey(e.Elem, ""), e.Elem.scalarSort(), false),
				}
			}
			return []*Term{
				Select(st.heap(heapKey(e, "reg"), RegSort), Mark(x.Reg, "reg")),
				Select(st.heap(heapKey(e, "off"), IdxSort), Mark(x.Reg, "reg")),
				Select(st.heap(heapKey(e, "len"), IdxSort), Mark(x.Reg, "reg")),
				x.Off, x.Len,
				st.heap(heapKey(e.Elem, ""), e.Elem.scalarSort()),
			}
		}
	}
	sfail("cannot pass %T to a spec function", v)
	return nil
}

// unflatten rebuilds spec values from SMT args given parameter types.
func unflatten(args []*Term, params []Param) []SVal {
	var out []SVal
	i := 0
	for _, p := range params {
		ty := tyFromName(p.Type)
		switch {
		case ty.K == TInt:
			out = append(out, SInt{args[i], ty})
			i++
		case ty.K == TBool:
			out = append(out, SBool{args[i]})
			i++
		case ty.K == TIface:
			out = append(out, SIface{args[i]})
			i++
		case ty.K == TSlice && ty.Elem.scalarSort() != nil:
			out = append(out, SSlice{Arr: args[i], Off: args[i+1], Len: args[i+2], Ty: ty})
			i += 3
		case ty.K == TSlice && ty.Elem.K == TSlice:
			out = append(out, nestedFromArgs(args[i:i+6], ty))
			i += 6
		default:
			sfail("unflatten %s", p.Type)
		}
	}
	return out
}

// nested slices inside spec functions: represented by a synthetic state holding the heaps.
func nestedFromArgs(a []*Term, ty *STy) SVal {
	e := ty.Elem
	st := &State{heaps: map[string]*Term{}, cells: nil}
	// synthetic region 0 holds the element headers
	r0 := BVInt(0, 32)
	mk := func(arr *Term, srt *Sort) *Term {
		return Store(ConstArrOfArr(srt), r0, arr)
	}
	st.heaps[heapKey(e, "reg")] = mk(a[0], RegSort)
	st.heaps[heapKey(e, "off")] = mk(a[1], IdxSort)
	st.heaps[heapKey(e, "len")] = mk(a[2], IdxSort)
	st.heaps[heapKey(e, "cap")] = mk(a[2], IdxSort)
	st.heaps[heapKey(e.Elem, "")] = a[5]
	return SSlice{Off: a[3], Len: a[4], Reg: r0, Ty: ty, st: st}
}

func ConstArrOfArr(elem *Sort) *Term {
	inner := ArrSort(IdxSort, elem)
	var z *Term
	if elem.IsBool() {
		z = False
	} else {
		z = BVInt(0, elem.W)
	}
	return ConstArr(ArrSort(RegSort, inner), ConstArr(inner, z))
}

// effectQuery: the log of interface-method calls made since function entry.
//   ncalls()        number of calls
//   callarg(k, i)   i-th argument of the k-th call (argument 0 is the receiver)
//   callret(k, i)   i-th result of the k-th call
func (ev *Env) effectQuery(x *ECall) SVal {
	base := 0
	if ev.old != nil {
		base = len(ev.old.effects)
	}
	effs := ev.st.effects
	if base > len(effs) {
		base = len(effs)
	}
	effs = effs[base:]
	if x.Fn == "ncalls" {
		return SInt{BVInt(int64(len(effs)), 64), tyInt}
	}
	if len(x.Args) != 2 {
		sfail("%s(k, i)", x.Fn)
	}
	lit := func(e Expr) int {
		l, ok := e.(*ELit)
		if !ok {
			sfail("%s needs literal indices", x.Fn)
		}
		return int(l.V.Int64())
	}
	k, i := lit(x.Args[0]), lit(x.Args[1])
	if k >= len(effs) {
		// the clause talks about a call that does not exist on this path
		sfail("callarg/callret(%d, ..): only %d call(s) logged on this path (guard the clause with ncalls())", k, len(effs))
	}
	e := effs[k]
	hs := &State{heaps: e.Heap, globals: ev.st.globals, alloc: ev.st.alloc}
	if x.Fn == "callarg" {
		if i >= len(e.Args) {
			sfail("callarg: no argument %d", i)
		}
		return toSVal(e.Args[i], hs)
	}
	if i >= len(e.Rets) {
		sfail("callret: no result %d", i)
	}
	return toSVal(e.Rets[i], hs)
}

// contractByShortName resolves "pkg.Func" to the contract of a function of the module.
func (w *World) contractByShortName(name string) *FuncSpec {
	for k, fs := range w.FuncSpecs {
		if fs.External {
			continue
		}
		if strings.HasSuffix(k, "/"+name) {
			return fs
		}
	}
	return nil
}

// contractCall evaluates a mention of a real function inside a lemma through its contract:
// the function's requires become proof goals of the lemma, its result is a fresh value
// constrained by the function's ensures. Only functions with frame "assigns nothing".
func (ev *Env) contractCall(fs *FuncSpec, x *ECall) SVal {
	w := ev.W
	fn := w.findFunc(fs.Pkg, fs.Name)
	if fn == nil {
		sfail("contract call: no function %s", fs.Name)
	}
	for _, c := range fs.Clauses {
		if c.Kind == "assigns" && strings.TrimSpace(c.Text) != "nothing" {
			sfail("contract call of %s: function is not pure (assigns %s)", fs.Name, c.Text)
		}
	}
	if len(x.Args) != len(fn.Params) {
		sfail("contract call of %s: expected %d arguments", fs.Name, len(fn.Params))
	}
	bound := map[string]SVal{}
	key := fs.Pkg + "." + fs.Name
	for i, p := range fn.Params {
		pt := tyFromGo(p.Type())
		a := ev.eval(x.Args[i])
		switch pt.K {
		case TInt:
			a = convUntyped(a, pt)
			si, ok := a.(SInt)
			if !ok || !sameTy(si.Ty, pt) {
				sfail("contract call of %s: argument %d has the wrong type", fs.Name, i+1)
			}
			key += fmt.Sprintf("|%d", si.T.id)
		case TBool:
			sb, ok := a.(SBool)
			if !ok {
				sfail("contract call of %s: argument %d must be bool", fs.Name, i+1)
			}
			key += fmt.Sprintf("|%d", sb.T.id)
		case TSlice:
			ss, ok := a.(SSlice)
			if !ok || !sameTy(ss.Ty.Elem, pt.Elem) {
				sfail("contract call of %s: argument %d must be %s", fs.Name, i+1, pt)
			}
			if ss.Arr == nil {
				sfail("contract call of %s: nested slices are not supported here", fs.Name)
			}
			key += fmt.Sprintf("|%d.%d.%d", ss.Arr.id, ss.Off.id, ss.Len.id)
		default:
			sfail("contract call of %s: unsupported parameter type %s", fs.Name, pt)
		}
		bound[p.Name()] = a
	}
	if v, ok := ev.cc.memo[key]; ok {
		return v
	}
	ev.cc.used[fs.Pkg+"."+fs.Name] = true
	// results
	res := fn.Signature.Results()
	tup := STuple{}
	for j := 0; j < res.Len(); j++ {
		rt := tyFromGo(res.At(j).Type())
		name := fmt.Sprintf("r%d", j)
		if j < len(fs.Results) {
			name = fs.Results[j]
		}
		hint := fn.Name() + "." + name
		var v SVal
		switch rt.K {
		case TInt:
			v = SInt{FreshVar(hint, BV(rt.W)), rt}
		case TBool:
			v = SBool{FreshVar(hint, BoolSort)}
		case TSlice:
			if rt.Elem.scalarSort() == nil {
				sfail("contract call of %s: unsupported result type %s", fs.Name, rt)
			}
			sl := SSlice{Arr: FreshVar(hint+".arr", ArrSort(IdxSort, rt.Elem.scalarSort())), Off: FreshVar(hint+".off", IdxSort), Len: FreshVar(hint+".len", IdxSort), Ty: rt}
			sl.Reg = FreshVar(hint+".reg", RegSort)
			ev.cc.hyps = append(ev.cc.hyps, BVCmp("bvsle", BVInt(0, 64), sl.Len), BVCmp("bvsle", BVInt(0, 64), sl.Off),
				BVCmp("bvsle", sl.Len, BVInt(int64(1)<<48, 64)), BVCmp("bvsle", sl.Off, BVInt(int64(1)<<48, 64)))
			v = sl
		default:
			sfail("contract call of %s: unsupported result type %s", fs.Name, rt)
		}
		tup.Names = append(tup.Names, name)
		tup.Vals = append(tup.Vals, v)
	}
	cst := ev.st
	pre := &Env{W: w, st: cst, pkg: fn.Pkg, bound: map[string]SVal{}, cc: nil}
	for k, v := range bound {
		pre.bound[k] = v
	}
	for _, c := range fs.Clauses {
		if c.Kind == "requires" {
			b, ok := pre.eval(c.E).(SBool)
			if !ok {
				sfail("requires of %s not boolean", fs.Name)
			}
			ev.cc.goals = append(ev.cc.goals, b.T)
		}
	}
	post := &Env{W: w, st: cst, pkg: fn.Pkg, bound: map[string]SVal{}, cc: nil}
	for k, v := range bound {
		post.bound[k] = v
	}
	for j, n := range tup.Names {
		post.bound[n] = tup.Vals[j]
	}
	if len(tup.Vals) >= 1 {
		post.bound["result"] = tup.Vals[0]
	}
	post.bound["$alloc0"] = SInt{BVInt(1, 32), intTy(32, false)}
	for _, c := range fs.Clauses {
		if c.Kind == "defines" && len(tup.Vals) == 1 {
			if si, ok := post.eval(c.E).(SInt); ok {
				if ri, ok := tup.Vals[0].(SInt); ok {
					ev.cc.hyps = append(ev.cc.hyps, Eq(ri.T, si.T))
				}
			}
		}
		if c.Kind == "ensures" {
			b, ok := post.eval(c.E).(SBool)
			if !ok {
				sfail("ensures of %s not boolean", fs.Name)
			}
			ev.cc.hyps = append(ev.cc.hyps, b.T)
		}
	}
	var out SVal = tup
	if len(tup.Vals) == 1 {
		out = tup.Vals[0]
	}
	ev.cc.memo[key] = out
	return out
}

func convUntyped(a SVal, to *STy) SVal {
	if u, ok := a.(SUntyped); ok {
		return SInt{BVConst(u.V, to.W), to}
	}
	return a
}
