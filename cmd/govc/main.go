package main

import (
	"encoding/json"
	"flag"
	"fmt"
	"os"
	"path/filepath"
	"regexp"
	"runtime"
	"sort"
	"strings"
	"sync"
	"time"
)

type PropCfg struct {
	Funcs       []string `json:"funcs"`
	Variants    []string `json:"variants"` // extra build-tag sets, e.g. "verif,debug"
	Lemmas      []string `json:"lemmas"`   // lemmas stated for the property itself (corollaries)
	Level       string   `json:"level"`
	Explanation string   `json:"explanation"`
	Assumptions []string `json:"assumptions"`
	Unproved    []string `json:"unproved"` // clauses of the statement not decided by obligations
	Bounded     []string `json:"bounded"`
	PurityPkgs  []string `json:"purity_pkgs"`
	PurityFuncs []string `json:"purity_funcs"`
	OnlyKinds   []string `json:"only_kinds"`
	Claimed     *bool    `json:"claimed,omitempty"`
}

type KnownFinding struct {
	Property   string `json:"property"`
	Obligation string `json:"obligation"`
	Status     string `json:"status"` // open | fixed
	Commit     string `json:"commit,omitempty"`
	Input      string `json:"input,omitempty"`
	What       string `json:"what"`
}

func main() {
	repo := flag.String("repo", "/repo", "repository")
	verif := flag.String("verif", "/verif", "verification dir")
	prop := flag.String("prop", "", "property id (empty: all contracts)")
	tier := flag.String("tier", "quick", "quick|thorough")
	only := flag.String("func", "", "only this function (substring)")
	dump := flag.String("dump", "", "dump the SMT query of obligations matching this regexp")
	verbose := flag.Bool("v", false, "verbose")
	timeoutF := flag.Int("timeout", 0, "solver timeout in seconds (default by tier)")
	noEvidence := flag.Bool("no-evidence", false, "do not write the evidence file")
	noWitness := flag.Bool("no-witness", false, "skip the witness search on failures (debugging)")
	overlayF := flag.String("overlay", "", "JSON file mapping absolute paths to replacement file paths (for self-tests)")
	jobs := flag.Int("j", runtime.NumCPU(), "parallel solver jobs")
	replayF := flag.String("replay", "", "re-run the call recorded in a replay file against the real code")
	witnessAll := flag.Int("witness-all", 0, "run the concrete contract check (N random records per function) for every target function")
	flag.Parse()
	skipWitness = *noWitness
	t0 := time.Now()

	timeout := 200
	if *tier == "thorough" {
		timeout = 400
		crossCheck = true
	}
	if *timeoutF > 0 {
		timeout = *timeoutF
	}
	workDir = filepath.Join(os.TempDir(), fmt.Sprintf("govc-%d", os.Getpid()))
	os.MkdirAll(workDir, 0755)
	defer os.RemoveAll(workDir)

	props := map[string]*PropCfg{}
	if b, err := os.ReadFile(filepath.Join(*verif, "props.json")); err == nil {
		if err := json.Unmarshal(b, &props); err != nil {
			fatal("props.json: %v", err)
		}
	}
	var cfg *PropCfg
	if *prop != "" {
		cfg = props[*prop]
		if cfg == nil {
			fatal("unknown property %s", *prop)
		}
	}
	var overlay map[string][]byte
	if *overlayF != "" {
		b, err := os.ReadFile(*overlayF)
		if err != nil {
			fatal("%v", err)
		}
		m := map[string]string{}
		if err := json.Unmarshal(b, &m); err != nil {
			fatal("overlay: %v", err)
		}
		overlay = map[string][]byte{}
		for k, v := range m {
			overlayPaths[k] = v
			c, err := os.ReadFile(v)
			if err != nil {
				fatal("%v", err)
			}
			overlay[k] = c
		}
	}

	if *replayF != "" {
		replayOverlay = overlay
		os.Exit(doReplay(*replayF, *repo, *verif))
	}
	variants := []string{"verif"}
	if cfg != nil {
		variants = append(variants, cfg.Variants...)
	}
	var allObls []*Obligation
	var prepared []*PreparedObl
	var genErrors []string
	assumes := map[string]bool{}
	funcsUnderContract := map[string]bool{}
	lemmaContracts := map[string]bool{}
	var lastWorld *World
	for vi, tags := range variants {
		w, err := LoadWorld(*repo, tags, overlay, []string{"./..."})
		if err != nil {
			fatal("load: %v", err)
		}
		if err := w.LoadSpecs(filepath.Join(*verif, "speclib")); err != nil {
			fatal("specs: %v", err)
		}
		lastWorld = w
		theWorld = w
		// target functions
		var targets []*FuncSpec
		if cfg != nil {
			for _, f := range cfg.Funcs {
				k := strings.Index(f, ".")
				key := modPath + "/" + f[:k] + "." + f[k+1:]
				fs := w.FuncSpecs[key]
				if fs == nil {
					genErrors = append(genErrors, "no contract for "+f)
					continue
				}
				targets = append(targets, fs)
			}
		} else {
			var keys []string
			for k, fs := range w.FuncSpecs {
				if !fs.External {
					keys = append(keys, k)
				}
			}
			sort.Strings(keys)
			for _, k := range keys {
				targets = append(targets, w.FuncSpecs[k])
			}
		}
		for _, fs := range targets {
			if *only != "" && !strings.Contains(fs.Name, *only) {
				continue
			}
			if vi > 0 {
				// variant builds re-verify the same contracts
			}
			n0 := len(w.Obls)
			w.VerifyFunc(fs)
			funcsUnderContract[strings.TrimPrefix(fs.Pkg, modPath+"/")+"."+fs.Name] = true
			if vi > 0 {
				for _, o := range w.Obls[n0:] {
					o.Name += "[" + tags + "]"
				}
			}
		}
		if cfg != nil && vi == 0 && len(cfg.PurityPkgs) > 0 && *only == "" {
			w.PurityScan(cfg.PurityPkgs, cfg.PurityFuncs)
		}
		if cfg != nil && len(cfg.OnlyKinds) > 0 {
			keep := map[string]bool{}
			for _, k := range cfg.OnlyKinds {
				keep[k] = true
			}
			var kept []*Obligation
			for _, o := range w.Obls {
				if keep[o.Kind] {
					kept = append(kept, o)
				}
			}
			w.Obls = kept
		}
		// prepare function obligations (records lemma usage)
		for _, o := range w.Obls {
			prepared = append(prepared, w.PrepareObligation(o, len(w.LemmaOrder)))
		}
		// lemma closure
		need := map[string]bool{}
		var queue []string
		addL := func(n string) {
			if !need[n] {
				need[n] = true
				queue = append(queue, n)
			}
		}
		for fn, ls := range w.LemmaUses {
			if strings.HasPrefix(fn, "lemma:") {
				continue
			}
			for l := range ls {
				addL(l)
			}
		}
		if cfg != nil && vi == 0 {
			for _, l := range cfg.Lemmas {
				addL(l)
			}
		}
		if cfg == nil && vi == 0 {
			for _, l := range w.LemmaOrder {
				addL(l.Name)
			}
		}
		nObl := len(w.Obls)
		lemmasWanted := true
		if cfg != nil && len(cfg.OnlyKinds) > 0 {
			lemmasWanted = false
			for _, k := range cfg.OnlyKinds {
				if k == "lemma" {
					lemmasWanted = true
				}
			}
		}
		if vi == 0 && lemmasWanted {
			for len(queue) > 0 {
				n := queue[0]
				queue = queue[1:]
				if strings.HasPrefix(n, "contract:") {
					lemmaContracts[strings.TrimPrefix(n, "contract:")] = true
					continue
				}
				lem := w.Lemmas[n]
				if lem == nil {
					genErrors = append(genErrors, "unknown lemma "+n)
					continue
				}
				if lem.Axiom {
					assumes["axiom "+lem.Name+" (definitional, not proved)"] = true
					continue
				}
				if *only != "" && !strings.Contains("lemma:"+lem.Name, *only) && cfg == nil {
					continue
				}
				o, err := w.LemmaObligation(lem)
				if err != nil {
					genErrors = append(genErrors, err.Error())
					continue
				}
				w.Obls = append(w.Obls, o)
				po := w.PrepareObligation(o, w.lemmaIndex(lem.Name))
				prepared = append(prepared, po)
				for l := range w.LemmaUses["lemma:"+lem.Name] {
					addL(l)
				}
			}
		}
		_ = nObl
		if *only == "" {
			for c := range lemmaContracts {
				short := strings.TrimPrefix(c, modPath+"/")
				if !funcsUnderContract[short] {
					genErrors = append(genErrors, "a lemma relies on the contract of "+short+", which is not verified in this run: add it to the property's function list")
				}
			}
		}
		allObls = append(allObls, w.Obls...)
		genErrors = append(genErrors, w.Errors...)
		for a := range w.Assumes {
			assumes[a] = true
		}
	}
	genSecs := time.Since(t0).Seconds()
	if *witnessAll > 0 {
		bad := 0
		var names []string
		for f := range funcsUnderContract {
			names = append(names, f)
		}
		sort.Strings(names)
		for _, f := range names {
			k := strings.Index(f, ".")
			fs := theWorld.FuncSpecs[modPath+"/"+f[:k]+"."+f[k+1:]]
			if fs == nil {
				continue
			}
			res := theWorld.witnessFor(fs, nil, *repo, *witnessAll, nil)
			if res == nil {
				fmt.Printf("%-40s (not drivable)\n", f)
				continue
			}
			fmt.Printf("%-40s tried=%v admissible=%v confirmed=%v %v %v\n", f, res["records_tried"], res["records_admissible"], res["confirmed"], res["violated"], res["error"])
			if c, _ := res["confirmed"].(bool); c {
				bad++
				b, _ := json.Marshal(res["inputs"])
				fmt.Printf("   inputs: %s outputs: %v panic: %v\n", b, res["outputs"], res["panic"])
			}
		}
		if bad > 0 {
			os.Exit(1)
		}
		os.Exit(0)
	}

	if *dump != "" {
		re := regexp.MustCompile(*dump)
		for _, po := range prepared {
			if re.MatchString(po.O.Name) {
				for _, q := range po.Queries {
					fmt.Printf("; ---- %s %s path=%s %s\n; %s\n%s\n", po.O.Name, q.Label, po.O.Path, po.O.Pos, po.O.Text, q.Text)
				}
			}
		}
		return
	}

	// solve: one job per SMT query, largest first
	var jobs2 []*queryJob
	byPO := map[*PreparedObl][]*queryJob{}
	for _, po := range prepared {
		js := po.Jobs()
		byPO[po] = js
		jobs2 = append(jobs2, js...)
	}
	sort.SliceStable(jobs2, func(i, j int) bool {
		return len(jobs2[i].po.Queries[jobs2[i].idx].Text) > len(jobs2[j].po.Queries[jobs2[j].idx].Text)
	})
	var wg sync.WaitGroup
	ch := make(chan *queryJob)
	for i := 0; i < *jobs; i++ {
		wg.Add(1)
		go func() {
			defer wg.Done()
			for j := range ch {
				j.run(timeout)
			}
		}()
	}
	for _, j := range jobs2 {
		ch <- j
	}
	close(ch)
	wg.Wait()
	for _, po := range prepared {
		if js := byPO[po]; len(js) > 0 {
			po.Collect(js)
		}
	}

	// report
	known := loadKnown(filepath.Join(*verif, "known_findings.json"))
	type agg struct {
		name          string
		total, passed int
		failed        []*Obligation
	}
	byName := map[string]*agg{}
	var order []string
	solverCount := map[string]int{}
	solverSecs := 0.0
	nObl, nDis := 0, 0
	nCover, nCoverBad := 0, 0
	var coverBad []*Obligation
	coverGroups := map[string]*coverGroup{}
	maxSecs := 0.0
	slowest := ""
	crossAgreed, crossUnconf := 0, 0
	for _, o := range allObls {
		if o.Res == nil {
			continue
		}
		crossAgreed += o.Res.CrossAgreed
		crossUnconf += o.Res.CrossUnconfirmed
		for _, d := range o.Res.CrossDisagree {
			genErrors = append(genErrors, "SOLVER DISAGREEMENT on "+o.Name+": "+d)
		}
		solverSecs += o.Res.Seconds
		if o.Res.MaxSeconds > maxSecs {
			maxSecs, slowest = o.Res.MaxSeconds, o.Name
		}
		if o.Cover {
			g := coverGroups[o.Name]
			if g == nil {
				g = &coverGroup{first: o}
				coverGroups[o.Name] = g
			}
			g.total++
			if o.Res.Status != "unsat" {
				g.reach++
			}
			continue
		}
		a := byName[o.Name]
		if a == nil {
			a = &agg{name: o.Name}
			byName[o.Name] = a
			order = append(order, o.Name)
		}
		a.total++
		nObl++
		if o.Res.Status == "unsat" {
			a.passed++
			nDis++
			solverCount[o.Res.Solver]++
		} else {
			a.failed = append(a.failed, o)
		}
	}
	for _, g := range coverGroups {
		nCover++
		if g.reach == 0 {
			nCoverBad++
			coverBad = append(coverBad, g.first)
		}
	}
	violations := 0
	knownHits := 0
	exit := 0
	pid := *prop
	if pid == "" {
		pid = "ALL"
	}
	os.MkdirAll(filepath.Join(*verif, "replay"), 0755)
	for _, n := range order {
		a := byName[n]
		if len(a.failed) == 0 {
			if *verbose {
				fmt.Printf("ok   %-60s %d/%d\n", n, a.passed, a.total)
			}
			continue
		}
		o := a.failed[0]
		// known finding?
		if kf := matchKnown(known, pid, n); kf != nil {
			fmt.Printf("KNOWN-FINDING: property=%s %s: %s\n", pid, n, kf.What)
			knownHits++
			continue
		}
		violations++
		rp := filepath.Join(*verif, "replay", fmt.Sprintf("%s-%s.json", pid, sanitize(n)))
		witness := writeReplay(rp, pid, o, a.total, len(a.failed), *repo, *verif)
		suffix := ""
		if !witness {
			suffix = " no-failing-input-found"
		}
		fmt.Printf("FAILED %s (%d of %d paths; path %s) [%s %s] %s :: %s\n", n, len(a.failed), a.total, o.Path, o.Res.Status, firstWord(o.Res.Output), o.Pos, o.Text)
		if len(o.Res.Model) > 0 {
			fmt.Printf("       model: %v\n", o.Res.Model)
		}
		fmt.Printf("VIOLATION property=%s replay=%s%s\n", pid, rp, suffix)
		exit = 1
	}
	// functions under contract whose obligations could not be generated (construct outside the
	// subset): the property is undecided for them, unless the concrete contract check on the real
	// code finds a failing input - that is a violation with a replayable counterexample
	if theWorld != nil && !skipWitness {
		var fks []string
		for k := range theWorld.FuncErrors {
			fks = append(fks, k)
		}
		sort.Strings(fks)
		for _, k := range fks {
			fs := theWorld.FuncSpecs[k]
			if fs == nil {
				continue
			}
			res := theWorld.witnessFor(fs, nil, *repo, 6000, nil)
			if res == nil {
				continue
			}
			if c, _ := res["confirmed"].(bool); c {
				rp := filepath.Join(*verif, "replay", fmt.Sprintf("%s-%s.json", pid, sanitize(k+"/contract-on-real-code")))
				r := map[string]interface{}{"property": pid, "obligation": k + "/contract-on-real-code", "function": k,
					"note": "the function could not be brought under the VC generator (" + theWorld.FuncErrors[k] + "); its contract was evaluated on concrete executions of the real code instead and is violated by the recorded input",
					"witness": res}
				b, _ := json.MarshalIndent(r, "", " ")
				os.WriteFile(rp, b, 0644)
				fmt.Printf("FAILED %s/contract-on-real-code :: %v\n", k, res["violated"])
				fmt.Printf("VIOLATION property=%s replay=%s\n", pid, rp)
				violations++
				exit = 1
			}
		}
	}
	// trusted contracts (bodies outside the verifier's reach): BOUNDED concrete check of the contract
	// against executions of the real function; never counted as proved
	var boundedChecks []interface{}
	if theWorld != nil && !skipWitness && *only == "" {
		var tks []string
		for k := range theWorld.Trusted {
			tks = append(tks, k)
		}
		for k := range theWorld.Checked {
			if !theWorld.Trusted[k] {
				tks = append(tks, k)
			}
		}
		sort.Strings(tks)
		nrec := 400
		if *tier == "thorough" {
			nrec = 5000
			witnessBudgetSecs = 400
		}
		for _, short := range tks {
			kk := strings.Index(short, ".")
			key := modPath + "/" + short[:kk] + "." + short[kk+1:]
			fs := theWorld.FuncSpecs[key]
			if fs == nil {
				continue
			}
			res := theWorld.witnessFor(fs, nil, *repo, nrec, nil)
			if res == nil {
				genErrors = append(genErrors, "trusted contract of "+short+" could not be exercised concretely")
				continue
			}
			kind := "bounded: trusted contract evaluated on concrete executions of the real function (reflect driver, go test -overlay)"
			if !theWorld.Trusted[short] {
				kind = "bounded: the contract INCLUDING its 'checked' clauses (not obligations: " + strings.Join(theWorld.Checked[short], " ;; ") + ") evaluated on concrete executions of the real function (reflect driver, go test -overlay)"
			}
			bc := map[string]interface{}{"function": short, "kind": kind,
				"records_tried": res["records_tried"], "records_admissible": res["records_admissible"], "bound": fmt.Sprintf("up to %d seeded random/boundary records within %d s of evaluation, seed %d (records_tried is what was actually evaluated)", nrec, witnessBudgetSecs, seedFromEnv())}
			boundedChecks = append(boundedChecks, bc)
			if adm, _ := res["records_admissible"].(int); adm == 0 {
				genErrors = append(genErrors, fmt.Sprintf("bounded check of trusted %s: no admissible record (%v)", short, res["error"]))
			}
			if c, _ := res["confirmed"].(bool); c {
				label := "/trusted-contract-on-real-code"
				note := "the contract of this function is trusted by the proofs of its callers (body outside the subset); evaluated on concrete executions of the real code it is violated by the recorded input"
				if !theWorld.Trusted[short] {
					label = "/checked-clause-on-real-code"
					note = "a 'checked' clause (a clause of the statement that is not an obligation; bounded check on concrete executions of the real code) is violated by the recorded input"
				}
				rp := filepath.Join(*verif, "replay", fmt.Sprintf("%s-%s.json", pid, sanitize(key+label)))
				r := map[string]interface{}{"property": pid, "obligation": key + label, "function": key,
					"note": note,
					"witness": res}
				b, _ := json.MarshalIndent(r, "", " ")
				os.WriteFile(rp, b, 0644)
				fmt.Printf("FAILED %s%s :: %v\n", key, label, res["violated"])
				fmt.Printf("VIOLATION property=%s replay=%s\n", pid, rp)
				violations++
				exit = 1
			}
		}
	}
	for _, o := range coverBad {
		fmt.Printf("VACUOUS %s: %s on no path (contradictory precondition or invariant?)\n", o.Name, o.Text)
	}
	for _, e := range genErrors {
		fmt.Printf("ERROR %s\n", e)
	}
	if len(genErrors) > 0 || nCoverBad > 0 {
		// engine/contract errors are not property violations, but the check did not establish
		// the property either: fail loudly without a VIOLATION line.
		if exit == 0 {
			exit = 2
		}
	}
	if exit == 1 && violations == 0 {
		exit = 2
	}
	if nObl == 0 && exit == 0 {
		fmt.Println("ERROR no obligations generated")
		exit = 2
	}
	wall := time.Since(t0).Seconds()
	fmt.Printf("%s: %d obligations, %d discharged, %d known-finding, %d violation(s); %d covers (%d vacuous); gen %.1fs, solver %.1fs cpu, wall %.1fs; slowest %.2fs %s\n",
		pid, nObl, nDis, knownHits, violations, nCover, nCoverBad, genSecs, solverSecs, wall, maxSecs, slowest)

	if !*noEvidence && *prop != "" {
		var fl, tl []string
		for f := range funcsUnderContract {
			if theWorld != nil && theWorld.Trusted[f] {
				tl = append(tl, f)
				continue
			}
			fl = append(fl, f)
		}
		sort.Strings(fl)
		sort.Strings(tl)
		var al []string
		for a := range assumes {
			al = append(al, a)
		}
		al = append(al, cfg.Assumptions...)
		sort.Strings(al)
		var samples []interface{}
		cnt := 0
		for _, n := range order {
			a := byName[n]
			if cnt < 12 || len(a.failed) > 0 {
				st := "discharged"
				if len(a.failed) > 0 {
					st = "failed:" + a.failed[0].Res.Status
				}
				samples = append(samples, map[string]interface{}{"obligation": n, "paths": a.total, "status": st})
				cnt++
			}
		}
		var lemmasProved []string
		for _, o := range allObls {
			if o.Lemma && o.Res != nil && o.Res.Status == "unsat" {
				lemmasProved = append(lemmasProved, strings.TrimPrefix(o.Name, "lemma/"))
			}
		}
		sort.Strings(lemmasProved)
		level := cfg.Level
		if level == "" {
			level = "proof"
		}
		cov := map[string]interface{}{
			"obligations":            nObl,
			"discharged":             nDis,
			"distinct_obligation_names": len(order),
			"checker_cmd":            fmt.Sprintf("bin/govc -prop %s -tier %s", *prop, *tier),
			"trusted_base": []string{
				"govc VC generator (this repository, /verif/cmd/govc)",
				"golang.org/x/tools v0.29.0 go/packages + go/ssa (NaiveForm) faithfully representing the source",
				"SMT solvers: z3 5.1.0 (z3-new), cvc5 1.0.3, z3 4.8.12",
				"Go compiler/runtime implement the language spec; partial correctness only (no termination, no memory exhaustion)",
			},
			"functions_under_contract": fl,
			"functions_trusted_contract_bounded_check": tl,
			"bounded_checks":           boundedChecks,
			"lemmas_proved":            lemmasProved,
			"by_backend":               solverCount,
			"solver_cpu_s":             round2(solverSecs),
			"generation_s":             round2(genSecs),
			"slowest_obligation":       map[string]interface{}{"name": slowest, "seconds": round2(maxSecs)},
			"cross_solver_agreement": map[string]interface{}{"enabled": crossCheck, "queries_confirmed_by_second_solver_family": crossAgreed, "queries_not_confirmed_within_30s": crossUnconf, "note": "thorough tier only: every discharged query is re-run on cvc5 (if z3 answered) or z3 (if cvc5 answered); a 'sat' from the second solver is reported as an engine error"},
			"covers_checked":           nCover,
			"covers_vacuous":           nCoverBad,
			"known_findings_hit":       knownHits,
			"build_variants":           variants,
			"samples":                  samples,
			"explanation":              cfg.Explanation,
			"not_decided_by_obligations": cfg.Unproved,
			"bounded":                  cfg.Bounded,
			"engine_errors":            genErrors,
		}
		ev := map[string]interface{}{
			"property_id": *prop,
			"tier":        *tier,
			"seed":        seedFromEnv(),
			"level":       level,
			"coverage":    cov,
			"assumptions": al,
			"wall_s":      round2(wall),
			"violations":  violations,
		}
		os.MkdirAll(filepath.Join(*verif, "evidence"), 0755)
		b, _ := json.MarshalIndent(ev, "", " ")
		os.WriteFile(filepath.Join(*verif, "evidence", *prop+".json"), b, 0644)
	}
	_ = lastWorld
	os.RemoveAll(workDir)
	os.Exit(exit)
}

var skipWitness bool

type coverGroup struct {
	first        *Obligation
	total, reach int
}

func qsize(po *PreparedObl) int {
	n := 0
	for _, q := range po.Queries {
		n += len(q.Text)
	}
	return n
}

func firstWord(s string) string {
	f := strings.Fields(s)
	if len(f) > 0 && strings.HasPrefix(f[0], "[") {
		return f[0]
	}
	return ""
}

func round2(f float64) float64 { return float64(int(f*100+0.5)) / 100 }

func seedFromEnv() int {
	var s int
	fmt.Sscanf(os.Getenv("VERIF_SEED"), "%d", &s)
	return s
}

func fatal(f string, a ...interface{}) {
	fmt.Fprintf(os.Stderr, "govc: "+f+"\n", a...)
	os.Exit(2)
}

func sanitize(s string) string {
	return regexp.MustCompile(`[^A-Za-z0-9_.-]+`).ReplaceAllString(s, "_")
}

func loadKnown(path string) []KnownFinding {
	var k []KnownFinding
	b, err := os.ReadFile(path)
	if err != nil {
		return nil
	}
	json.Unmarshal(b, &k)
	return k
}

func matchKnown(ks []KnownFinding, prop, obl string) *KnownFinding {
	for i := range ks {
		k := &ks[i]
		if k.Status == "open" && (k.Property == prop || prop == "ALL") && k.Obligation == obl {
			return k
		}
	}
	return nil
}

// writeReplay writes the replay file; returns true if a concrete failing input was confirmed.
func writeReplay(path, prop string, o *Obligation, paths, failed int, repo, verif string) bool {
	r := map[string]interface{}{
		"property":      prop,
		"obligation":    o.Name,
		"function":      o.Func,
		"kind":          o.Kind,
		"position":      o.Pos,
		"clause":        o.Text,
		"path":          o.Path,
		"paths_total":   paths,
		"paths_failed":  failed,
		"solver_status": o.Res.Status,
		"solver":        o.Res.Solver,
		"solver_output": o.Res.Output,
		"model":         o.Res.Model,
		"query":         o.Res.QueryTxt,
	}
	confirmed := false
	if skipWitness {
	} else if w := runWitnessSearch(prop, o, repo, verif); w != nil {
		r["witness"] = w
		if c, ok := w["confirmed"].(bool); ok && c {
			confirmed = true
		}
	}
	if !confirmed {
		r["note"] = "no-failing-input-found: the deciding step is the failed obligation above"
	}
	b, _ := json.MarshalIndent(r, "", " ")
	os.WriteFile(path, b, 0644)
	return confirmed
}

// doReplay re-runs the concrete call recorded in a replay file on the current tree.
var replayOverlay map[string][]byte

func doReplay(path, repo, verif string) int {
	b, err := os.ReadFile(path)
	if err != nil {
		fatal("%v", err)
	}
	var r map[string]interface{}
	if err := json.Unmarshal(b, &r); err != nil {
		fatal("replay file: %v", err)
	}
	prop, _ := r["property"].(string)
	wit, _ := r["witness"].(map[string]interface{})
	if wit == nil || wit["inputs"] == nil {
		fmt.Printf("replay file %s carries no concrete input (obligation %v failed without a witness); re-run ./check %s to re-decide the obligation\n", path, r["obligation"], prop)
		return 0
	}
	w, err := LoadWorld(repo, "verif", replayOverlay, []string{"./..."})
	if err != nil {
		fatal("load: %v", err)
	}
	if err := w.LoadSpecs(filepath.Join(verif, "speclib")); err != nil {
		fatal("specs: %v", err)
	}
	theWorld = w
	fnKey, _ := r["function"].(string)
	fs := w.FuncSpecs[fnKey]
	if fs == nil {
		fatal("no contract for %s", fnKey)
	}
	res := w.witnessFor(fs, nil, repo, 0, []interface{}{wit["inputs"]})
	if res != nil {
		if c, _ := res["confirmed"].(bool); c {
			out, _ := json.MarshalIndent(res, "", " ")
			fmt.Printf("replay reproduces the violation on the current tree:\n%s\n", out)
			fmt.Printf("VIOLATION property=%s replay=%s\n", prop, path)
			return 1
		}
	}
	if res == nil || res["error"] != nil {
		fmt.Printf("replay of %s could not be executed: %v\n", path, res)
		return 2
	}
	fmt.Printf("replay of %s: the recorded call satisfies the contract on the current tree (%v)\n", path, res)
	return 0
}
