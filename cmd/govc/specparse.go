package main

// Contract language: file structure (blocks / clauses) and expression parser.

import (
	"fmt"
	"math/big"
	"os"
	"strconv"
	"strings"
)

// ---------- expression AST ----------

type Expr interface{}

type (
	ELit   struct{ V *big.Int }
	EBool  struct{ V bool }
	EIdent struct{ Name string }
	EUn    struct {
		Op string
		X  Expr
	}
	EBin struct {
		Op   string
		L, R Expr
	}
	ECall struct {
		Fn   string
		Args []Expr
	}
	EIndex struct{ X, I Expr }
	ESlice struct{ X, Lo, Hi Expr }
	EField struct {
		X    Expr
		Name string
	}
	EQuant struct {
		Forall bool
		Vars   []Param
		Body   Expr
	}
)

type Param struct {
	Name string
	Type string
}

// ---------- lexer ----------

type tok struct {
	k string // id num op eof
	s string
}

func lexExpr(src string) ([]tok, error) {
	var out []tok
	i := 0
	ops := []string{"<==>", "==>", "&&", "||", "==", "!=", "<=", ">=", "<<", ">>", "&^", "::", "+", "-", "*", "/", "%", "&", "|", "^", "<", ">", "!", "(", ")", "[", "]", ",", ":", ".", "?"}
	for i < len(src) {
		c := src[i]
		if c == ' ' || c == '\t' || c == '\n' {
			i++
			continue
		}
		if c == '"' {
			// a string literal stands for its identity number (fmtID): used to name format strings
			j := i + 1
			for j < len(src) && src[j] != '"' {
				j++
			}
			if j >= len(src) {
				return nil, fmt.Errorf("unterminated string literal in %q", src)
			}
			out = append(out, tok{"num", strconv.FormatUint(fmtID(src[i+1:j]), 10)})
			i = j + 1
			continue
		}
		if c >= '0' && c <= '9' {
			j := i
			for j < len(src) && (src[j] >= '0' && src[j] <= '9' || src[j] >= 'a' && src[j] <= 'f' || src[j] >= 'A' && src[j] <= 'F' || src[j] == 'x' || src[j] == 'X' || src[j] == '_') {
				j++
			}
			out = append(out, tok{"num", src[i:j]})
			i = j
			continue
		}
		if c == '_' || c >= 'a' && c <= 'z' || c >= 'A' && c <= 'Z' {
			j := i
			for j < len(src) && (src[j] == '_' || src[j] == '#' || src[j] == '$' || src[j] >= 'a' && src[j] <= 'z' || src[j] >= 'A' && src[j] <= 'Z' || src[j] >= '0' && src[j] <= '9') {
				j++
			}
			out = append(out, tok{"id", src[i:j]})
			i = j
			continue
		}
		matched := false
		for _, o := range ops {
			if strings.HasPrefix(src[i:], o) {
				out = append(out, tok{"op", o})
				i += len(o)
				matched = true
				break
			}
		}
		if !matched {
			return nil, fmt.Errorf("bad character %q in %q", c, src)
		}
	}
	out = append(out, tok{"eof", ""})
	return out, nil
}

// fmtID: the number a string literal (a format string) stands for in contracts and in the fmt model
func fmtID(s string) uint64 {
	h := uint64(14695981039346656037)
	for i := 0; i < len(s); i++ {
		h ^= uint64(s[i])
		h *= 1099511628211
	}
	return h & 0x3fffffffffffffff
}

type eparser struct {
	toks []tok
	p    int
	src  string
}

func (p *eparser) peek() tok { return p.toks[p.p] }
func (p *eparser) next() tok  { t := p.toks[p.p]; p.p++; return t }
func (p *eparser) isOp(s string) bool {
	t := p.peek()
	return t.k == "op" && t.s == s
}
func (p *eparser) expectOp(s string) {
	if !p.isOp(s) {
		panic(fmt.Sprintf("expected %q at token %d (%v) in %q", s, p.p, p.peek(), p.src))
	}
	p.p++
}

func ParseExpr(src string) (e Expr, err error) {
	toks, err := lexExpr(src)
	if err != nil {
		return nil, err
	}
	p := &eparser{toks: toks, src: src}
	defer func() {
		if r := recover(); r != nil {
			err = fmt.Errorf("%v", r)
		}
	}()
	e = p.parseImpl()
	if p.peek().k != "eof" {
		panic(fmt.Sprintf("trailing tokens at %d (%v) in %q", p.p, p.peek(), src))
	}
	return e, nil
}

func (p *eparser) parseImpl() Expr {
	if t := p.peek(); t.k == "id" && (t.s == "forall" || t.s == "exists") {
		return p.parseQuant()
	}
	l := p.parseBin(1)
	if p.isOp("==>") {
		p.next()
		r := p.parseImpl()
		return &EBin{"==>", l, r}
	}
	if p.isOp("<==>") {
		p.next()
		r := p.parseImpl()
		return &EBin{"<==>", l, r}
	}
	return l
}

func (p *eparser) parseQuant() Expr {
	t := p.next()
	q := &EQuant{Forall: t.s == "forall"}
	for {
		n := p.next()
		if n.k != "id" {
			panic("quantifier: expected variable name in " + p.src)
		}
		ty := p.parseTypeName()
		q.Vars = append(q.Vars, Param{n.s, ty})
		if p.isOp(",") {
			p.next()
			continue
		}
		break
	}
	p.expectOp("::")
	q.Body = p.parseImpl()
	return q
}

func (p *eparser) parseTypeName() string {
	s := ""
	for p.isOp("[") {
		p.next()
		p.expectOp("]")
		s += "[]"
	}
	n := p.next()
	if n.k != "id" {
		panic("expected type name in " + p.src)
	}
	return s + n.s
}

var binPrec = map[string]int{
	"||": 1, "&&": 2,
	"==": 3, "!=": 3, "<": 3, "<=": 3, ">": 3, ">=": 3,
	"+": 4, "-": 4, "|": 4, "^": 4,
	"*": 5, "/": 5, "%": 5, "<<": 5, ">>": 5, "&": 5, "&^": 5,
}

func (p *eparser) parseBin(minPrec int) Expr {
	l := p.parseUnary()
	for {
		t := p.peek()
		if t.k != "op" {
			return l
		}
		pr, ok := binPrec[t.s]
		if !ok || pr < minPrec {
			return l
		}
		p.next()
		var r Expr
		// a quantifier may appear as the right operand of && / ||
		if n := p.peek(); n.k == "id" && (n.s == "forall" || n.s == "exists") {
			r = p.parseQuant()
		} else {
			r = p.parseBin(pr + 1)
		}
		l = &EBin{t.s, l, r}
	}
}

func (p *eparser) parseUnary() Expr {
	t := p.peek()
	if t.k == "op" && (t.s == "-" || t.s == "!" || t.s == "^") {
		p.next()
		x := p.parseUnary()
		return &EUn{t.s, x}
	}
	return p.parsePostfix()
}

func isTypeName(s string) bool {
	switch s {
	case "int", "int8", "int16", "int32", "int64", "uint", "uint8", "uint16", "uint32", "uint64", "byte", "uintptr", "bool":
		return true
	}
	return false
}

func (p *eparser) parsePostfix() Expr {
	var x Expr
	t := p.next()
	switch {
	case t.k == "num":
		v, ok := new(big.Int).SetString(strings.ReplaceAll(t.s, "_", ""), 0)
		if !ok {
			panic("bad number " + t.s)
		}
		x = &ELit{v}
	case t.k == "id" && t.s == "true":
		x = &EBool{true}
	case t.k == "id" && t.s == "false":
		x = &EBool{false}
	case t.k == "id":
		x = &EIdent{t.s}
	case t.k == "op" && t.s == "(":
		x = p.parseImpl()
		p.expectOp(")")
	default:
		panic(fmt.Sprintf("unexpected token %v at %d in %q", t, p.p, p.src))
	}
	for {
		switch {
		case p.isOp("("):
			id, ok := x.(*EIdent)
			var name string
			if ok {
				name = id.Name
			} else if f, ok2 := x.(*EField); ok2 {
				if b, ok3 := f.X.(*EIdent); ok3 {
					name = b.Name + "." + f.Name
				}
			}
			if name == "" {
				panic("call of non-identifier in " + p.src)
			}
			p.next()
			var args []Expr
			for !p.isOp(")") {
				args = append(args, p.parseImpl())
				if p.isOp(",") {
					p.next()
				}
			}
			p.expectOp(")")
			x = &ECall{name, args}
		case p.isOp("["):
			p.next()
			var lo, hi Expr
			if !p.isOp(":") {
				lo = p.parseImpl()
			}
			if p.isOp(":") {
				p.next()
				if !p.isOp("]") {
					hi = p.parseImpl()
				}
				p.expectOp("]")
				x = &ESlice{x, lo, hi}
			} else {
				p.expectOp("]")
				x = &EIndex{x, lo}
			}
		case p.isOp("."):
			p.next()
			n := p.next()
			if n.k != "id" {
				panic("expected field name in " + p.src)
			}
			x = &EField{x, n.s}
		default:
			return x
		}
	}
}

// ---------- file structure ----------

type Clause struct {
	Kind string // requires ensures invariant use split reveal assigns ...
	Text string
	E    Expr   // parsed expression where applicable
	Line string // file:line
}

type LoopSpec struct {
	N       int
	Clauses []*Clause
}

type FuncSpec struct {
	Name     string // Func, (*T).Method as "T.Method", closure "Func$1"
	Pkg      string // package path ("" = package of the file)
	Results  []string
	Clauses  []*Clause // requires ensures assigns hints ...
	Loops    map[int]*LoopSpec
	Inline   bool
	External bool
	Params   []Param // only for external functions
	RetTypes []Param
	File     string
}

type SpecFn struct {
	Name      string
	Params    []Param
	Ret       string
	Body      Expr
	BodyText  string
	Opaque    bool
	Recursive bool
	Ghost     bool // mutable ghost state: a map from the (single) argument to the result, kept in the heap
	File      string
}

type Lemma struct {
	Name    string
	Params  []Param
	Clauses []*Clause
	Trigger *ECall
	Axiom   bool
	File    string
}

type GlobalInv struct {
	Pkg  string
	Name string
	E    Expr
	Text string
}

type TypeInv struct {
	Pkg  string
	Name string
	Self string
	E    Expr
	Text string
}

type SpecFile struct {
	Funcs   []*FuncSpec
	SpecFns []*SpecFn
	Lemmas  []*Lemma
	Globals []*GlobalInv
	Types   []*TypeInv
}

var clauseKeywords = map[string]bool{
	"func": true, "spec": true, "ghost": true, "lemma": true, "axiom": true, "global": true, "type": true, "extern": true,
	"requires": true, "ensures": true, "assigns": true, "loop": true, "invariant": true,
	"use": true, "split": true, "reveal": true, "inline": true, "induction": true, "trigger": true,
	"unroll": true, "assert": true, "inst": true, "nounfold": true, "unfold": true, "timeout": true,
	"bounded": true, "havocs": true, "pure": true, "reads": true, "modifies": true, "decreases": true,
	"effects": true, "case": true, "fuel": true, "assertret": true, "splitret": true, "mapentries": true, "dyntype": true, "witness-gen": true, "defines": true, "establishes": true, "instdepth": true, "useret": true, "initphase": true, "note": true, "trusted": true, "logged": true, "instdepthret": true, "regionctx": true, "checked": true,
}

// ParseSpecFile reads a contract file. Lines of interest start with "//@" (in .go files) or are
// taken verbatim (in .spec files; '#' or '//' starts a comment).
func ParseSpecFile(path string, pkgPath string) (*SpecFile, error) {
	data, err := os.ReadFile(path)
	if err != nil {
		return nil, err
	}
	isGo := strings.HasSuffix(path, ".go")
	type ln struct {
		s   string
		num int
	}
	var lines []ln
	for i, raw := range strings.Split(string(data), "\n") {
		s := raw
		if isGo {
			t := strings.TrimSpace(s)
			if !strings.HasPrefix(t, "//@") {
				continue
			}
			s = strings.TrimPrefix(t, "//@")
		}
		// strip trailing comment
		if k := strings.Index(s, "//"); k >= 0 {
			s = s[:k]
		}
		if !isGo {
			if k := strings.Index(s, "#!"); k >= 0 {
				s = s[:k]
			}
		}
		if strings.TrimSpace(s) == "" {
			continue
		}
		lines = append(lines, ln{s, i + 1})
	}
	// join continuation lines
	var cl []ln
	for _, l := range lines {
		f := strings.Fields(l.s)
		if len(f) > 0 && (clauseKeywords[f[0]] || strings.HasPrefix(f[0], "splitentry") || strings.HasPrefix(f[0], "revealentry")) || len(cl) == 0 {
			cl = append(cl, ln{strings.TrimSpace(l.s), l.num})
		} else {
			cl[len(cl)-1].s += " " + strings.TrimSpace(l.s)
		}
	}
	sf := &SpecFile{}
	var curF *FuncSpec
	var curL *LoopSpec
	var curLem *Lemma
	perr := func(l ln, f string, a ...interface{}) error {
		return fmt.Errorf("%s:%d: %s", path, l.num, fmt.Sprintf(f, a...))
	}
	for _, l := range cl {
		kw, rest := splitKw(l.s)
		loc := fmt.Sprintf("%s:%d", path, l.num)
		switch kw {
		case "func", "extern":
			curL, curLem = nil, nil
			curF = &FuncSpec{Loops: map[int]*LoopSpec{}, File: path, Pkg: pkgPath, External: kw == "extern"}
			// func Name [returns (a, b)]   |  extern pkg.Name(params) (results)
			if kw == "extern" {
				name, params, rets, err := parseSig(rest)
				if err != nil {
					return nil, perr(l, "%v", err)
				}
				curF.Name, curF.Params, curF.RetTypes = name, params, rets
				for _, r := range rets {
					curF.Results = append(curF.Results, r.Name)
				}
			} else {
				parts := strings.SplitN(rest, "returns", 2)
				curF.Name = strings.TrimSpace(parts[0])
				if len(parts) == 2 {
					r := strings.Trim(strings.TrimSpace(parts[1]), "()")
					for _, x := range strings.Split(r, ",") {
						curF.Results = append(curF.Results, strings.TrimSpace(x))
					}
				}
			}
			sf.Funcs = append(sf.Funcs, curF)
		case "spec", "ghost":
			curF, curL, curLem = nil, nil, nil
			// spec func name(params) ret [opaque] [recursive] = body   |   ghost name(param) ret
			r := strings.TrimSpace(strings.TrimPrefix(rest, "func"))
			eq := strings.Index(r, " = ")
			sig, body := r, ""
			if eq >= 0 {
				sig, body = r[:eq], r[eq+3:]
			}
			fn := &SpecFn{File: path, Ghost: kw == "ghost"}
			for _, fl := range []string{"opaque", "recursive"} {
				if strings.HasSuffix(strings.TrimSpace(sig), " "+fl) {
					sig = strings.TrimSuffix(strings.TrimSpace(sig), " "+fl)
					if fl == "opaque" {
						fn.Opaque = true
					} else {
						fn.Recursive = true
					}
				}
			}
			for _, fl := range []string{"opaque", "recursive"} {
				if strings.HasSuffix(strings.TrimSpace(sig), " "+fl) {
					sig = strings.TrimSuffix(strings.TrimSpace(sig), " "+fl)
					if fl == "opaque" {
						fn.Opaque = true
					} else {
						fn.Recursive = true
					}
				}
			}
			name, params, rets, err := parseSig(sig)
			if err != nil {
				return nil, perr(l, "%v", err)
			}
			fn.Name, fn.Params = name, params
			if len(rets) != 1 {
				return nil, perr(l, "spec func needs exactly one result type")
			}
			fn.Ret = rets[0].Type
			if fn.Ghost && (len(params) != 1 || body != "") {
				return nil, perr(l, "ghost NAME(key T) R: exactly one key, no body")
			}
			if body != "" {
				e, err := ParseExpr(body)
				if err != nil {
					return nil, perr(l, "%v", err)
				}
				fn.Body, fn.BodyText = e, body
			}
			sf.SpecFns = append(sf.SpecFns, fn)
		case "lemma", "axiom":
			curF, curL = nil, nil
			name, params, _, err := parseSig(rest)
			if err != nil {
				return nil, perr(l, "%v", err)
			}
			curLem = &Lemma{Name: name, Params: params, Axiom: kw == "axiom", File: path}
			sf.Lemmas = append(sf.Lemmas, curLem)
		case "global":
			curF, curL, curLem = nil, nil, nil
			k := strings.Index(rest, ":")
			if k < 0 {
				return nil, perr(l, "global NAME: expr")
			}
			e, err := ParseExpr(rest[k+1:])
			if err != nil {
				return nil, perr(l, "%v", err)
			}
			sf.Globals = append(sf.Globals, &GlobalInv{Pkg: pkgPath, Name: strings.TrimSpace(rest[:k]), E: e, Text: strings.TrimSpace(rest[k+1:])})
		case "type":
			curF, curL, curLem = nil, nil, nil
			// type T(self) invariant expr
			k := strings.Index(rest, "invariant")
			if k < 0 {
				return nil, perr(l, "type T(self) invariant expr")
			}
			hd := strings.TrimSpace(rest[:k])
			self := "self"
			if p := strings.Index(hd, "("); p >= 0 {
				self = strings.Trim(hd[p:], "() ")
				hd = strings.TrimSpace(hd[:p])
			}
			e, err := ParseExpr(rest[k+len("invariant"):])
			if err != nil {
				return nil, perr(l, "%v", err)
			}
			sf.Types = append(sf.Types, &TypeInv{Pkg: pkgPath, Name: hd, Self: self, E: e, Text: strings.TrimSpace(rest[k+9:])})
		case "loop":
			if curF == nil {
				return nil, perr(l, "loop outside func")
			}
			n, err := strconv.Atoi(strings.TrimSpace(rest))
			if err != nil {
				return nil, perr(l, "loop N")
			}
			curL = &LoopSpec{N: n}
			curF.Loops[n] = curL
		case "inline":
			if curF == nil {
				return nil, perr(l, "inline outside func")
			}
			curF.Inline = true
		default:
			c := &Clause{Kind: kw, Text: rest, Line: loc}
			switch kw {
			case "requires", "ensures", "invariant", "assert", "inst", "case", "assertret", "checked":
				e, err := ParseExpr(rest)
				if err != nil {
					return nil, perr(l, "%v", err)
				}
				c.E = e
			case "use", "trigger", "unfold", "useret", "defines":
				e, err := ParseExpr(rest)
				if err != nil {
					return nil, perr(l, "%v", err)
				}
				c.E = e
			}
			switch {
			case curLem != nil:
				if kw == "trigger" {
					call, ok := c.E.(*ECall)
					if !ok {
						return nil, perr(l, "trigger must be a spec function application")
					}
					curLem.Trigger = call
				}
				curLem.Clauses = append(curLem.Clauses, c)
			case curL != nil && kw != "requires" && kw != "ensures" && kw != "assigns" && kw != "useret" && kw != "splitret" && kw != "assertret" && kw != "instdepthret" && kw != "checked":
				curL.Clauses = append(curL.Clauses, c)
			case curF != nil:
				curF.Clauses = append(curF.Clauses, c)
			default:
				return nil, perr(l, "clause %q outside any block", kw)
			}
		}
	}
	return sf, nil
}

func splitKw(s string) (string, string) {
	s = strings.TrimSpace(s)
	k := strings.IndexAny(s, " \t")
	if k < 0 {
		return s, ""
	}
	return s[:k], strings.TrimSpace(s[k+1:])
}

// parseSig parses  name(a T, b []T) (r T)  or  name(a T) T.
func parseSig(s string) (string, []Param, []Param, error) {
	s = strings.TrimSpace(s)
	o := strings.Index(s, "(")
	if o < 0 {
		return "", nil, nil, fmt.Errorf("bad signature %q", s)
	}
	name := strings.TrimSpace(s[:o])
	depth, c := 0, -1
	for i := o; i < len(s); i++ {
		if s[i] == '(' {
			depth++
		}
		if s[i] == ')' {
			depth--
			if depth == 0 {
				c = i
				break
			}
		}
	}
	if c < 0 {
		return "", nil, nil, fmt.Errorf("bad signature %q", s)
	}
	params, err := parseParams(s[o+1 : c])
	if err != nil {
		return "", nil, nil, err
	}
	rest := strings.TrimSpace(s[c+1:])
	var rets []Param
	if rest != "" {
		if strings.HasPrefix(rest, "(") {
			rets, err = parseParams(strings.Trim(rest, "()"))
			if err != nil {
				return "", nil, nil, err
			}
		} else {
			rets = []Param{{"result", rest}}
		}
	}
	return name, params, rets, nil
}

func parseParams(s string) ([]Param, error) {
	var out []Param
	s = strings.TrimSpace(s)
	if s == "" {
		return nil, nil
	}
	for _, p := range strings.Split(s, ",") {
		f := strings.Fields(p)
		if len(f) == 1 {
			out = append(out, Param{f[0], ""})
			continue
		}
		if len(f) != 2 {
			return nil, fmt.Errorf("bad parameter %q", p)
		}
		out = append(out, Param{f[0], f[1]})
	}
	// propagate types leftwards: "a, b T"
	for i := len(out) - 2; i >= 0; i-- {
		if out[i].Type == "" {
			out[i].Type = out[i+1].Type
		}
	}
	return out, nil
}
