package main

// Lemma obligations: lemmas over spec functions are proved on every run.

import (
	"fmt"
	"strings"

	"golang.org/x/tools/go/ssa"
)

func (w *World) lemmaIndex(name string) int {
	for i, l := range w.LemmaOrder {
		if l.Name == name {
			return i
		}
	}
	return -1
}

func (w *World) lemmaParamVals(lem *Lemma, suffix string) ([]SVal, []NamedTerm) {
	var args []SVal
	var model []NamedTerm
	for _, p := range lem.Params {
		ty := tyFromName(p.Type)
		if ty == nil {
			sfail("lemma %s: unknown type %q", lem.Name, p.Type)
		}
		n := "L." + p.Name + suffix
		switch {
		case ty.K == TInt:
			v := Var(n, BV(ty.W))
			args = append(args, SInt{v, ty})
			model = append(model, NamedTerm{p.Name, v})
		case ty.K == TBool:
			v := Var(n, BoolSort)
			args = append(args, SBool{v})
			model = append(model, NamedTerm{p.Name, v})
		case ty.K == TSlice && ty.Elem.scalarSort() != nil:
			s := SSlice{Arr: Var(n+".arr", ArrSort(IdxSort, ty.Elem.scalarSort())), Off: Var(n+".off", IdxSort), Len: Var(n+".len", IdxSort), Ty: ty}
			args = append(args, s)
			model = append(model, NamedTerm{p.Name + ".len", s.Len})
		default:
			sfail("lemma %s: unsupported parameter type %q", lem.Name, p.Type)
		}
	}
	return args, model
}

// LemmaObligation builds the proof obligation of a lemma.
func (w *World) LemmaObligation(lem *Lemma) (o *Obligation, err error) {
	defer func() {
		if r := recover(); r != nil {
			switch e := r.(type) {
			case specErr:
				err = fmt.Errorf("lemma %s: %s", lem.Name, e.msg)
			case vcErr:
				err = fmt.Errorf("lemma %s: %s", lem.Name, e.msg)
			default:
				panic(r)
			}
		}
	}()
	idx := w.lemmaIndex(lem.Name)
	args, model := w.lemmaParamVals(lem, "")
	lst := &State{heaps: map[string]*Term{}, globals: map[*ssa.Global]Value{}, cells: map[*ssa.Alloc]Value{}, regs: map[ssa.Value]Value{}}
	cc := &contractCalls{memo: map[string]SVal{}, used: map[string]bool{}}
	ev := &Env{W: w, st: lst, bound: map[string]SVal{}, cc: cc}
	w.initPhase = false
	for i, p := range lem.Params {
		ev.bound[p.Name] = args[i]
	}
	var hyps, ens []*Term
	h := &Hints{Reveal: map[string]bool{}}
	// slices are well-formed: 0 <= len, 0 <= off (as for program slices)
	for _, a := range args {
		if s, ok := a.(SSlice); ok {
			hyps = append(hyps, BVCmp("bvsle", BVInt(0, 64), s.Len), BVCmp("bvsle", BVInt(0, 64), s.Off),
				BVCmp("bvsle", s.Len, BVInt(int64(1)<<60, 64)), BVCmp("bvsle", s.Off, BVInt(int64(1)<<60, 64)))
		}
	}
	for _, c := range lem.Clauses {
		switch c.Kind {
		case "requires":
			b, ok := ev.eval(c.E).(SBool)
			if !ok {
				sfail("requires not boolean")
			}
			hyps = append(hyps, b.T)
		case "ensures":
			b, ok := ev.eval(c.E).(SBool)
			if !ok {
				sfail("ensures not boolean")
			}
			ens = append(ens, b.T)
		case "use":
			call, ok := c.E.(*ECall)
			if !ok {
				sfail("use LEMMA(args)")
			}
			if j := w.lemmaIndex(call.Fn); j < 0 || j >= idx {
				sfail("lemma %s may only use lemmas defined before it (%s)", lem.Name, call.Fn)
			}
			t, e2 := w.lemmaInstance(ev, call)
			if e2 != nil {
				sfail("%v", e2)
			}
			hyps = append(hyps, t)
			w.noteLemmaUse("lemma:"+lem.Name, call.Fn)
		case "unfold":
			v := ev.eval(c.E)
			var t *Term
			switch x := v.(type) {
			case SInt:
				t = x.T
			case SBool:
				t = x.T
			}
			if t == nil || unmark(t).Op != "app" {
				sfail("unfold needs an application of a recursive/opaque spec function")
			}
			eq, e2 := w.unfoldApp(unmark(t))
			if e2 != nil {
				sfail("%v", e2)
			}
			hyps = append(hyps, eq)
		case "reveal":
			for _, n := range strings.Fields(strings.ReplaceAll(c.Text, ",", " ")) {
				h.Reveal[n] = true
			}
		case "split":
			f := strings.Fields(c.Text)
			if len(f) < 3 {
				sfail("split EXPR LO HI")
			}
			var lo, hi int64
			fmt.Sscanf(f[len(f)-2], "%d", &lo)
			fmt.Sscanf(f[len(f)-1], "%d", &hi)
			e, e2 := ParseExpr(strings.Join(f[:len(f)-2], " "))
			if e2 != nil {
				sfail("%v", e2)
			}
			si, ok := ev.eval(e).(SInt)
			if !ok {
				sfail("split expression must be an integer")
			}
			h.Splits = append(h.Splits, Split{si.T, lo, hi})
		case "inst":
			if si, ok := ev.eval(c.E).(SInt); ok {
				h.Insts = append(h.Insts, si.T)
			}
		case "nounfold":
			h.NoUnfold = true
		case "fuel":
			fmt.Sscanf(c.Text, "%d", &h.Fuel)
		case "instdepth":
			fmt.Sscanf(c.Text, "%d", &h.InstDepth)
		case "timeout":
			fmt.Sscanf(c.Text, "%d", &h.Timeout)
		case "induction":
			// induction hypothesis: the lemma at k-1 (guarded against wrap-around)
			name := strings.TrimSpace(c.Text)
			var ihArgs []SVal
			found := false
			for i, p := range lem.Params {
				if p.Name == name {
					si, ok := args[i].(SInt)
					if !ok || !si.Ty.Signed {
						sfail("induction variable must be a signed integer")
					}
					found = true
					prev := SInt{BVBin("bvsub", si.T, BVInt(1, si.Ty.W)), si.Ty}
					ihArgs = append(ihArgs, prev)
					minv := BVConst(mask(si.Ty.W-1), si.Ty.W) // max positive
					_ = minv
					guard := BVCmp("bvslt", prev.T, si.T)
					ih := w.lemmaBodyWith(lem, args, i, prev)
					hyps = append(hyps, Implies(guard, ih))
				} else {
					ihArgs = append(ihArgs, args[i])
				}
			}
			if !found {
				sfail("induction: no parameter %q", name)
			}
		case "trigger":
		default:
			sfail("unknown lemma clause %q", c.Kind)
		}
	}
	// real functions mentioned through their contracts
	hyps = append(hyps, lst.hyps...)
	hyps = append(hyps, cc.hyps...)
	ens = append(append([]*Term(nil), cc.goals...), ens...)
	for f := range cc.used {
		w.noteLemmaUse("lemma:"+lem.Name, "contract:"+f)
	}
	o = &Obligation{
		Name: "lemma/" + lem.Name, Func: "lemma:" + lem.Name, Kind: "lemma", Text: lem.Name,
		Hyps: hyps, Goal: And(ens...), Hints: h, Model: model, Lemma: true, Pos: lem.File,
	}
	return o, nil
}

func (w *World) lemmaBodyWith(lem *Lemma, args []SVal, i int, v SVal) *Term {
	n := append([]SVal(nil), args...)
	n[i] = v
	return w.lemmaBody(lem, n)
}
