package main

// Lemma obligations: lemmas over spec functions are proved on every run.

import (
	"fmt"
	"strings"

	"golang.org/x/tools/go/ssa"
)

func (w *World) lemmaIndex(name string) int {
	for i, l := range w.LemmaOrder {
		if l.Name == name {
			return i
		}
	}
	return -1
}

func (w *World) lemmaParamVals(lem *Lemma, suffix string) ([]SVal, []NamedTerm) {
	var args []SVal
	var model []NamedTerm
	for _, p := range lem.Params {
		ty := tyFromName(p.Type)
		if ty == nil {
			sfail("lemma %s: unknown type %q", lem.Name, p.Type)
		}
		n := "L." + p.Name + suffix
		switch {
		case ty.K == TInt:
			v := Var(n, BV(ty.W))
			args = append(args, SInt{v, ty})
			model = append(model, NamedTerm{p.Name, v})
		case ty.K == TBool:
			v := Var(n, BoolSort)
			args = append(args, SBool{v})
			model = append(model, NamedTerm{p.Name, v})
		case ty.K == TSlice && ty.Elem.scalarSort() != nil:
			s := SSlice{Arr: Var(n+".arr", ArrSort(IdxSort, ty.Elem.scalarSort())), Off: Var(n+".off", IdxSort), Len: Var(n+".len", IdxSort), Ty: ty}
			args = append(args, s)
			model = append(model, NamedTerm{p.Name + ".len", s.Len})
		case ty.K == TSlice && ty.Elem.K == TSlice && ty.Elem.Elem.scalarSort() != nil:
			// a slice of slices / of strings: element headers (reg, off, len per element), the outer
			// offset and length, and the whole inner heap
			es := ty.Elem.Elem.scalarSort()
			a := []*Term{Var(n+".hreg", ArrSort(IdxSort, RegSort)), Var(n+".hoff", ArrSort(IdxSort, IdxSort)), Var(n+".hlen", ArrSort(IdxSort, IdxSort)),
				Var(n+".off", IdxSort), Var(n+".len", IdxSort), Var(n+".inner", ArrSort(RegSort, ArrSort(IdxSort, es)))}
			s := nestedFromArgs(a, ty).(SSlice)
			args = append(args, s)
			model = append(model, NamedTerm{p.Name + ".len", s.Len})
		default:
			sfail("lemma %s: unsupported parameter type %q", lem.Name, p.Type)
		}
	}
	return args, model
}

// nestedWF: the element headers of a slice of slices / strings are well-formed
// (0 <= len, 0 <= off, both <= 2^48), for elements 0 <= k < len
func nestedWF(s SSlice) *Term {
	if s.Arr != nil || s.st == nil || s.Ty == nil || s.Ty.Elem.K != TSlice {
		return True
	}
	e := s.Ty.Elem
	k := BoundVar("k", IdxSort, "s64")
	pos := BVBin("bvadd", s.Off, Mark(k, "s64"))
	ln := Select(Select(s.st.heap(heapKey(e, "len"), IdxSort), Mark(s.Reg, "reg")), pos)
	of := Select(Select(s.st.heap(heapKey(e, "off"), IdxSort), Mark(s.Reg, "reg")), pos)
	z, mx := BVInt(0, 64), BVInt(int64(1)<<48, 64)
	return Forall([]*Term{k}, Implies(And(BVCmp("bvsle", z, k), BVCmp("bvslt", k, s.Len)),
		And(BVCmp("bvsle", z, ln), BVCmp("bvsle", ln, mx), BVCmp("bvsle", z, of), BVCmp("bvsle", of, mx))))
}

// LemmaObligation builds the proof obligation of a lemma.
func (w *World) LemmaObligation(lem *Lemma) (o *Obligation, err error) {
	defer func() {
		if r := recover(); r != nil {
			switch e := r.(type) {
			case specErr:
				err = fmt.Errorf("lemma %s: %s", lem.Name, e.msg)
			case vcErr:
				err = fmt.Errorf("lemma %s: %s", lem.Name, e.msg)
			default:
				panic(r)
			}
		}
	}()
	idx := w.lemmaIndex(lem.Name)
	args, model := w.lemmaParamVals(lem, "")
	lst := &State{heaps: map[string]*Term{}, globals: map[*ssa.Global]Value{}, cells: map[*ssa.Alloc]Value{}, regs: map[ssa.Value]Value{}}
	cc := &contractCalls{memo: map[string]SVal{}, used: map[string]bool{}}
	ev := &Env{W: w, st: lst, bound: map[string]SVal{}, cc: cc}
	w.initPhase = false
	for i, p := range lem.Params {
		ev.bound[p.Name] = args[i]
	}
	var hyps, ens []*Term
	h := &Hints{Reveal: map[string]bool{}}
	// slices are well-formed: 0 <= len, 0 <= off (as for program slices)
	for _, a := range args {
		if s, ok := a.(SSlice); ok {
			hyps = append(hyps, BVCmp("bvsle", BVInt(0, 64), s.Len), BVCmp("bvsle", BVInt(0, 64), s.Off),
				BVCmp("bvsle", s.Len, BVInt(int64(1)<<60, 64)), BVCmp("bvsle", s.Off, BVInt(int64(1)<<60, 64)))
			if wf := nestedWF(s); wf != True {
				hyps = append(hyps, wf)
			}
		}
	}
	for _, c := range lem.Clauses {
		switch c.Kind {
		case "requires":
			b, ok := ev.eval(c.E).(SBool)
			if !ok {
				sfail("requires not boolean")
			}
			hyps = append(hyps, b.T)
		case "ensures":
			b, ok := ev.eval(c.E).(SBool)
			if !ok {
				sfail("ensures not boolean")
			}
			ens = append(ens, b.T)
		case "use":
			uev := ev
			var uvars []*Term
			ue := c.E
			if q, ok := ue.(*EQuant); ok && q.Forall {
				// use forall v T :: LEMMA(args): a schema over integer variables
				for _, p := range q.Vars {
					ty := tyFromName(p.Type)
					if ty == nil || ty.K != TInt {
						sfail("quantified use needs integer variables")
					}
					bv := BoundVar(p.Name, BV(ty.W), tyKey(ty))
					uvars = append(uvars, bv)
					uev = uev.with(p.Name, SInt{bv, ty})
				}
				ue = q.Body
			}
			call, ok := ue.(*ECall)
			if !ok {
				sfail("use LEMMA(args)")
			}
			if j := w.lemmaIndex(call.Fn); j < 0 || j >= idx {
				sfail("lemma %s may only use lemmas defined before it (%s)", lem.Name, call.Fn)
			}
			t, e2 := w.lemmaInstance(uev, call)
			if e2 != nil {
				sfail("%v", e2)
			}
			if len(uvars) > 0 {
				t = Forall(uvars, t)
			}
			hyps = append(hyps, t)
			w.noteLemmaUse("lemma:"+lem.Name, call.Fn)
		case "unfold":
			v := ev.eval(c.E)
			var t *Term
			switch x := v.(type) {
			case SInt:
				t = x.T
			case SBool:
				t = x.T
			}
			if t == nil || unmark(t).Op != "app" {
				sfail("unfold needs an application of a recursive/opaque spec function")
			}
			eq, e2 := w.unfoldApp(unmark(t))
			if e2 != nil {
				sfail("%v", e2)
			}
			hyps = append(hyps, eq)
		case "reveal":
			for _, n := range strings.Fields(strings.ReplaceAll(c.Text, ",", " ")) {
				h.Reveal[n] = true
			}
		case "split":
			f := strings.Fields(c.Text)
			if len(f) < 3 {
				sfail("split EXPR LO HI")
			}
			var lo, hi int64
			fmt.Sscanf(f[len(f)-2], "%d", &lo)
			fmt.Sscanf(f[len(f)-1], "%d", &hi)
			e, e2 := ParseExpr(strings.Join(f[:len(f)-2], " "))
			if e2 != nil {
				sfail("%v", e2)
			}
			si, ok := ev.eval(e).(SInt)
			if !ok {
				sfail("split expression must be an integer")
			}
			h.Splits = append(h.Splits, Split{si.T, lo, hi})
		case "inst":
			if si, ok := ev.eval(c.E).(SInt); ok {
				h.Insts = append(h.Insts, si.T)
			}
		case "nounfold":
			h.NoUnfold = true
		case "fuel":
			fmt.Sscanf(c.Text, "%d", &h.Fuel)
		case "instdepth":
			fmt.Sscanf(c.Text, "%d", &h.InstDepth)
		case "timeout":
			fmt.Sscanf(c.Text, "%d", &h.Timeout)
		case "induction":
			// induction hypothesis: the lemma at k-1 (guarded against wrap-around)
			name := strings.TrimSpace(c.Text)
			var ihArgs []SVal
			found := false
			for i, p := range lem.Params {
				if p.Name == name {
					si, ok := args[i].(SInt)
					if !ok || !si.Ty.Signed {
						sfail("induction variable must be a signed integer")
					}
					found = true
					prev := SInt{BVBin("bvsub", si.T, BVInt(1, si.Ty.W)), si.Ty}
					ihArgs = append(ihArgs, prev)
					minv := BVConst(mask(si.Ty.W-1), si.Ty.W) // max positive
					_ = minv
					guard := BVCmp("bvslt", prev.T, si.T)
					ih := w.lemmaBodyWith(lem, args, i, prev)
					hyps = append(hyps, Implies(guard, ih))
				} else {
					ihArgs = append(ihArgs, args[i])
				}
			}
			if !found {
				sfail("induction: no parameter %q", name)
			}
		case "trigger":
		default:
			sfail("unknown lemma clause %q", c.Kind)
		}
	}
	// real functions mentioned through their contracts
	hyps = append(hyps, lst.hyps...)
	hyps = append(hyps, cc.hyps...)
	ens = append(append([]*Term(nil), cc.goals...), ens...)
	for f := range cc.used {
		w.noteLemmaUse("lemma:"+lem.Name, "contract:"+f)
	}
	o = &Obligation{
		Name: "lemma/" + lem.Name, Func: "lemma:" + lem.Name, Kind: "lemma", Text: lem.Name,
		Hyps: hyps, Goal: And(ens...), Hints: h, Model: model, Lemma: true, Pos: lem.File,
	}
	return o, nil
}

func (w *World) lemmaBodyWith(lem *Lemma, args []SVal, i int, v SVal) *Term {
	n := append([]SVal(nil), args...)
	n[i] = v
	return w.lemmaBody(lem, n)
}
