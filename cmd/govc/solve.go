package main

// Query preparation (skolemisation, instantiation, unfolding, lemma triggers, splits)
// and the solver portfolio.

import (
	"bytes"
	"context"
	"fmt"
	"os"
	"os/exec"
	"path/filepath"
	"sort"
	"strings"
	"sync"
	"time"
)

type SolveResult struct {
	Status   string // unsat sat unknown timeout error
	Solver   string
	Seconds  float64
	Output   string
	Model    map[string]string
	Queries  int
	QueryTxt string
	Insts    int
	MaxSeconds float64
	// thorough tier: every discharged query is re-run on a solver of a different family
	CrossAgreed, CrossUnconfirmed int
	CrossDisagree                 []string
}

// ---------- preparation ----------

type prep struct {
	w        *World
	skolems  map[*Term]map[*Term]*Term // quantifier node -> bound var -> skolem
	o        *Obligation
	extra    []*Term // hint instantiation terms
	nInst    int
	capped   bool
	lemmaMax int // only lemmas with order index < lemmaMax may auto-trigger (for lemma proofs)
	usedLem  map[string]bool
}

const maxInstPerQuant = 600

func splitConj(t *Term, out *[]*Term) {
	if t.Op == "and" {
		for _, a := range t.Args {
			splitConj(a, out)
		}
		return
	}
	if t != True {
		*out = append(*out, t)
	}
}

// Candidate classes. A candidate is registered under "<type>|*" and under "<type>|<context>"
// for every context it occurs in: "sel:<array base>" (used as an index into that array) or
// "app:<spec fn>#<arg>" (argument of a spec function). Bound variables are instantiated only
// with candidates that share one of their own contexts (pattern-directed instantiation);
// skolem constants and hint terms ("<type>|sk") are always used.

// regionCtx (hint "regionctx"): the pattern context of an index into a heap region also names the
// region, so that a quantifier over the elements of one slice is instantiated with the indices
// used on THAT slice only (functions juggling several slices of the same element type).
var regionCtx bool

func arrayBase(a *Term) string {
	region := ""
	for {
		a = unmark(a)
		switch a.Op {
		case "store", "select":
			if regionCtx && a.Op == "select" && region == "" && a.S.IsArr() && a.Args[1].S == RegSort {
				region = "@" + unmark(a.Args[1]).String()
				if len(region) > 80 {
					region = region[:80]
				}
			}
			a = a.Args[0]
			continue
		case "var", "app":
			n := a.Name
			if k := strings.IndexAny(n, "@!"); k >= 0 {
				n = n[:k]
			}
			return n + region
		case "ite":
			a = a.Args[1]
			continue
		}
		return a.Op
	}
}

// markIn finds the marked term used as the index expression idx: mark(t) or off + mark(t).
func markIn(idx *Term) *Term {
	if idx.Op == "mark" {
		return idx
	}
	if idx.Op == "bvadd" {
		for _, a := range idx.Args {
			if a.Op == "mark" {
				return a
			}
		}
	}
	return nil
}

// visitMarks calls f(markNode, context) for every mark occurrence with a recognisable context,
// and f(markNode, "*") for every mark node.
func visitMarks(fs []*Term, f func(m *Term, ctx string)) {
	seen := map[*Term]bool{}
	var rec func(t *Term)
	rec = func(t *Term) {
		if seen[t] {
			return
		}
		seen[t] = true
		switch t.Op {
		case "mark":
			f(t, "*")
		case "select", "store":
			if m := markIn(t.Args[1]); m != nil {
				ctx := "sel:" + arrayBase(t.Args[0])
				f(m, ctx)
				// index into a re-sliced slice: (off + lo) + k is also position lo + k of the
				// original slice - register the shifted candidates as well
				idx := t.Args[1]
				if idx.Op == "bvadd" && !idx.hasB {
					for _, o := range idx.Args {
						if o == m || o.Op != "bvadd" {
							continue
						}
						for _, part := range o.Args {
							if !unmark(part).IsConst() || true {
								f(Mark(BVBin("bvadd", unmark(part), unmark(m)), m.Name), ctx)
							}
						}
					}
				}
			}
		case "app":
			for j, a := range t.Args {
				if a.Op == "mark" {
					f(a, fmt.Sprintf("app:%s#%d", t.Name, j))
				}
			}
		}
		for _, a := range t.Args {
			rec(a)
		}
	}
	for _, x := range fs {
		rec(x)
	}
}

func addCand(cands map[string]map[*Term]bool, key string, t *Term) {
	m := cands[key]
	if m == nil {
		m = map[*Term]bool{}
		cands[key] = m
	}
	m[t] = true
}

// collect ground marked terms (candidates)
func collectCands(fs []*Term, cands map[string]map[*Term]bool) {
	visitMarks(fs, func(m *Term, ctx string) {
		if m.hasB {
			return
		}
		u := unmark(m)
		if strings.HasSuffix(m.Name, "^") {
			// cand(e): always a candidate
			if ctx == "*" {
				addCand(cands, strings.TrimSuffix(m.Name, "^")+"|sk", u)
			}
			return
		}
		addCand(cands, m.Name+"|"+ctx, u)
		if u.Op == "sign_extend" {
			addCand(cands, fmt.Sprintf("s%d|%s", u.Args[0].S.W, ctx), unmark(u.Args[0]))
		}
		if u.Op == "zero_extend" {
			addCand(cands, fmt.Sprintf("u%d|%s", u.Args[0].S.W, ctx), unmark(u.Args[0]))
		}
	})
}

func addHintCands(cands map[string]map[*Term]bool, ts []*Term) {
	for _, t := range ts {
		for _, key := range []string{fmt.Sprintf("s%d|sk", t.S.W), fmt.Sprintf("u%d|sk", t.S.W)} {
			addCand(cands, key, t)
		}
	}
}

var bvCtxCache = map[*Term]map[*Term][]string{}

// boundContexts returns, per bound variable of quantifier q, the contexts in which the
// variable itself (possibly sign/zero-extended) is used.
func boundContexts(q *Term) map[*Term][]string {
	if r, ok := bvCtxCache[q]; ok {
		return r
	}
	r := map[*Term][]string{}
	isB := map[*Term]bool{}
	for _, b := range q.Bound {
		isB[b] = true
	}
	visitMarks(q.Args, func(m *Term, ctx string) {
		if ctx == "*" {
			return
		}
		u := unmark(m)
		if u.Op == "sign_extend" || u.Op == "zero_extend" {
			u = unmark(u.Args[0])
		}
		if isB[u] {
			for _, c := range r[u] {
				if c == ctx {
					return
				}
			}
			r[u] = append(r[u], ctx)
		}
	})
	bvCtxCache[q] = r
	return r
}

type bshift struct {
	ctx  string
	part *Term
}

var bvShiftCache = map[*Term]map[*Term][]bshift{}

// boundShifts: the quantifier indexes a RE-SLICED slice with its bound variable, i.e. the body
// contains select(a, (off + lo) + b) with ground off, lo. A ground index off + c of the original
// slice then matches at b := c - lo. Returned per bound variable: (context, lo) pairs.
func boundShifts(q *Term) map[*Term][]bshift {
	if r, ok := bvShiftCache[q]; ok {
		return r
	}
	r := map[*Term][]bshift{}
	isB := map[*Term]bool{}
	for _, b := range q.Bound {
		isB[b] = true
	}
	seen := map[*Term]bool{}
	var rec func(t *Term)
	rec = func(t *Term) {
		if seen[t] {
			return
		}
		seen[t] = true
		if t.Op == "select" || t.Op == "store" {
			idx := t.Args[1]
			if m := markIn(idx); m != nil && idx.Op == "bvadd" && isB[unmark(m)] {
				for _, o := range idx.Args {
					if o == m || o.hasB {
						continue
					}
					parts := o.Args
					if o.Op != "bvadd" {
						// lo + b with offset 0 (a freshly allocated slice): lo is anything but the
						// offset variable of a slice header
						if uo := unmark(o); uo.IsConst() || uo.Op == "var" && strings.Contains(uo.Name, ".off") {
							continue
						}
						parts = []*Term{o}
					}
					for _, part := range parts {
						if unmark(part).IsConst() {
							continue
						}
						b := unmark(m)
						sh := bshift{"sel:" + arrayBase(t.Args[0]), unmark(part)}
						dup := false
						for _, e := range r[b] {
							if e == sh {
								dup = true
							}
						}
						if !dup {
							r[b] = append(r[b], sh)
						}
					}
				}
			}
		}
		for _, a := range t.Args {
			rec(a)
		}
	}
	for _, x := range q.Args {
		rec(x)
	}
	bvShiftCache[q] = r
	return r
}

// candidatesFor lists the instantiation terms for bound variable b of quantifier q.
func candidatesFor(q, b *Term, cands map[string]map[*Term]bool) []*Term {
	set := map[*Term]bool{}
	if bn := strings.SplitN(b.Name, "!", 2)[0]; strings.HasSuffix(bn, "SK") {
		// a bound variable named ...SK (in a `use forall` schema): instantiated only at skolem
		// constants, cand(e) terms and inst hints - never at the index terms of the obligation;
		// ...GSK: only at the skolem constants of the goal itself
		class := "|sk"
		if strings.HasSuffix(bn, "GSK") {
			class = "|gsk"
		}
		var l []*Term
		for c := range cands[b.Key+class] {
			if c.S == b.S {
				l = append(l, c)
			}
		}
		sort.Slice(l, func(i, j int) bool { return l[i].id < l[j].id })
		return l
	}
	for _, sh := range boundShifts(q)[b] {
		for _, src := range []string{b.Key + "|" + sh.ctx, b.Key + "|sk"} {
			for c := range cands[src] {
				if c.S == sh.part.S && c.Op != "bvsub" {
					set[BVBin("bvsub", c, sh.part)] = true
				}
			}
		}
	}
	ctxs := boundContexts(q)[b]
	if len(ctxs) == 0 {
		for c := range cands[b.Key+"|*"] {
			set[c] = true
		}
	} else {
		for _, cx := range ctxs {
			for c := range cands[b.Key+"|"+cx] {
				set[c] = true
			}
		}
	}
	for c := range cands[b.Key+"|sk"] {
		set[c] = true
	}
	var l []*Term
	for c := range set {
		if c.S == b.S {
			l = append(l, c)
		}
	}
	sort.Slice(l, func(i, j int) bool { return l[i].id < l[j].id })
	return l
}

func (p *prep) skolemFor(q *Term) map[*Term]*Term {
	if m, ok := p.skolems[q]; ok {
		return m
	}
	m := map[*Term]*Term{}
	for _, b := range q.Bound {
		m[b] = FreshVar("sk_"+strings.TrimPrefix(strings.SplitN(b.Name, "!", 2)[0], "?"), b.S)
	}
	p.skolems[q] = m
	return m
}

// inst rewrites f: existential-polarity quantifiers are skolemised, universal-polarity ones
// are replaced by the conjunction of their instances at the candidate terms.
func (p *prep) inst(f *Term, pos bool, cands map[string]map[*Term]bool) *Term {
	if !containsQuant(f) {
		return f
	}
	switch f.Op {
	case "not":
		return Not(p.inst(f.Args[0], !pos, cands))
	case "and", "or":
		args := make([]*Term, len(f.Args))
		for i, a := range f.Args {
			args[i] = p.inst(a, pos, cands)
		}
		if f.Op == "and" {
			return And(args...)
		}
		return Or(args...)
	case "=>":
		return Implies(p.inst(f.Args[0], !pos, cands), p.inst(f.Args[1], pos, cands))
	case "ite":
		if f.S.IsBool() && !containsQuant(f.Args[0]) {
			return Ite(f.Args[0], p.inst(f.Args[1], pos, cands), p.inst(f.Args[2], pos, cands))
		}
		return f
	case "=":
		// P <=> Q with quantifiers inside (the defining equation of a revealed predicate): both
		// directions, each with its own polarity
		if len(f.Args) == 2 && f.Args[0].S.IsBool() {
			a, b := f.Args[0], f.Args[1]
			return p.inst(And(Implies(a, b), Implies(b, a)), pos, cands)
		}
		return f
	case "forall", "exists":
		universal := (f.Op == "forall") == pos
		if !universal {
			sk := p.skolemFor(f)
			body := Subst(f.Args[0], sk)
			return p.inst(body, pos, cands)
		}
		// instantiate
		lists := make([][]*Term, len(f.Bound))
		total := 1
		for i, b := range f.Bound {
			l := candidatesFor(f, b, cands)
			lists[i] = l
			total *= len(l)
			if total > maxInstPerQuant {
				p.capped = true
			}
		}
		var insts []*Term
		if total > 0 {
			idx := make([]int, len(lists))
			count := 0
			for {
				m := map[*Term]*Term{}
				for i, b := range f.Bound {
					m[b] = lists[i][idx[i]]
				}
				body := Subst(f.Args[0], m)
				insts = append(insts, p.inst(body, pos, cands))
				p.nInst++
				count++
				if count >= maxInstPerQuant {
					break
				}
				j := len(idx) - 1
				for j >= 0 {
					idx[j]++
					if idx[j] < len(lists[j]) {
						break
					}
					idx[j] = 0
					j--
				}
				if j < 0 {
					break
				}
			}
		}
		if pos {
			return And(insts...)
		}
		return Or(insts...)
	}
	// quantifier under an operator we do not look through (iff, ite condition): keep
	return f
}

var cqCache = map[*Term]bool{}

func containsQuant(t *Term) bool {
	if v, ok := cqCache[t]; ok {
		return v
	}
	r := t.Op == "forall" || t.Op == "exists"
	if !r {
		for _, a := range t.Args {
			if containsQuant(a) {
				r = true
				break
			}
		}
	}
	cqCache[t] = r
	return r
}

// collect ground applications of spec functions
func collectApps(fs []*Term, out map[*Term]bool) {
	seen := map[*Term]bool{}
	var rec func(t *Term)
	rec = func(t *Term) {
		if seen[t] {
			return
		}
		seen[t] = true
		if t.Op == "app" && strings.HasPrefix(t.Name, "sf.") && !t.hasB {
			out[t] = true
		}
		for _, a := range t.Args {
			rec(a)
		}
	}
	for _, f := range fs {
		rec(f)
	}
}

// Prepare turns an obligation into a list of ground(ish) assertions.
func (w *World) Prepare(o *Obligation, lemmaMax int) ([]*Term, *prep) {
	p := &prep{w: w, skolems: map[*Term]map[*Term]*Term{}, o: o, lemmaMax: lemmaMax, usedLem: map[string]bool{}}
	var base []*Term
	for _, h := range o.Hyps {
		splitConj(h, &base)
	}
	goalStart := len(base)
	if !o.Cover {
		splitConj(Not(o.Goal), &base)
	}
	hints := o.Hints
	if hints == nil {
		hints = &Hints{Reveal: map[string]bool{}}
	}
	if regionCtx != hints.RegionCtx {
		regionCtx = hints.RegionCtx
		bvCtxCache = map[*Term]map[*Term][]string{}
		bvShiftCache = map[*Term]map[*Term][]bshift{}
	}
	fuel := 1
	if hints.Fuel > 0 {
		fuel = hints.Fuel
	}
	var derived []*Term      // unfold equations and lemma instances
	unfolded := map[*Term]bool{}
	lemDone := map[string]bool{}
	fromUnfold := map[*Term]int{} // apps introduced by unfolding / lemma instances -> depth
	trigDepth := 1
	if hints.TrigDepth > 0 {
		trigDepth = hints.TrigDepth
	}
	maxGen := 1
	if hints.InstDepth > 0 {
		maxGen = hints.InstDepth
	}
	cands := map[string]map[*Term]bool{}
	collectCands(base, cands)
	addHintCands(cands, hints.Insts)
	// pre-pass: create the skolem constants of the goal / existential hypotheses; they are
	// instantiation candidates for bound variables of the same class
	// (the goal's own skolem constants first: they are additionally registered under "|gsk", the
	// candidate class of schema variables named ...GSK)
	for _, f := range base[goalStart:] {
		p.inst(f, true, map[string]map[*Term]bool{})
	}
	for q, m := range p.skolems {
		for _, b := range q.Bound {
			addCand(cands, b.Key+"|gsk", m[b])
		}
	}
	for _, f := range base {
		p.inst(f, true, map[string]map[*Term]bool{})
	}
	p.nInst = 0
	addSkolems := func() {
		for q, m := range p.skolems {
			for _, b := range q.Bound {
				addCand(cands, b.Key+"|sk", m[b])
			}
		}
	}
	addSkolems()
	if os.Getenv("GOVC_DEBUG_CANDS") != "" {
		for k, m := range cands {
			fmt.Fprintf(os.Stderr, "CAND %s: %d\n", k, len(m))
		}
		for _, f := range base {
			if containsQuant(f) {
				fmt.Fprintf(os.Stderr, "QUANT %s\n", f)
				if f.Op == "forall" {
					fmt.Fprintf(os.Stderr, "  ctx %v\n", boundContexts(f))
				}
			}
		}
	}
	runInst := func() ([]*Term, []*Term) {
		var nb, nd []*Term
		for _, f := range base {
			splitConj(p.inst(f, true, cands), &nb)
		}
		for _, f := range derived {
			splitConj(p.inst(f, true, cands), &nd)
		}
		return nb, nd
	}
	derive := func(next []*Term) bool {
		// unfold / triggers on the apps present now
		apps := map[*Term]bool{}
		collectApps(next, apps)
		var appList []*Term
		for a := range apps {
			appList = append(appList, a)
		}
		sort.Slice(appList, func(i, j int) bool { return appList[i].id < appList[j].id })
		grew := false
		for _, a := range appList {
			name := strings.TrimPrefix(a.Name, "sf.")
			fn := w.SpecFns[name]
			if fn == nil {
				continue
			}
			if !unfolded[a] && fn.Body != nil && !hints.NoUnfold && ((fn.Recursive && !fn.Opaque) || hints.Reveal[name]) {
				d := fromUnfold[a]
				if d < fuel || !fn.Recursive {
					eq, err := w.unfoldApp(a)
					if err != nil {
						w.errorf("%s: %v", o.Name, err)
					} else {
						unfolded[a] = true
						derived = append(derived, eq)
						grew = true
						sub := map[*Term]bool{}
						collectApps([]*Term{eq}, sub)
						for s := range sub {
							if !apps[s] {
								if _, ok := fromUnfold[s]; !ok {
									fromUnfold[s] = d + 1
								}
							}
						}
					}
				}
			}
			// lemma triggers
			for li, lem := range w.LemmaOrder {
				if lem.Trigger == nil || lem.Trigger.Fn != name || li >= lemmaMax {
					continue
				}
				key := fmt.Sprintf("%s|%d", lem.Name, a.id)
				if lemDone[key] {
					continue
				}
				// triggers fire on applications of depth <= trigDepth only (depth 0 = present in the
				// obligation itself, depth d+1 = first seen in a fact derived from a depth-d application):
				// otherwise definitional axioms over a recursive structure would chain for ever
				if fromUnfold[a] > trigDepth {
					continue
				}
				lemDone[key] = true
				if t := w.triggerInstance(lem, fn, a); t != nil {
					derived = append(derived, t)
					p.usedLem[lem.Name] = true
					grew = true
					sub := map[*Term]bool{}
					collectApps([]*Term{t}, sub)
					for sa := range sub {
						if !apps[sa] {
							if _, ok := fromUnfold[sa]; !ok {
								fromUnfold[sa] = fromUnfold[a] + 1
							}
						}
					}
				}
			}
		}
		return grew
	}
	var result []*Term
	for gen := 0; ; gen++ {
		nb, nd := runInst()
		result = append(append([]*Term(nil), nb...), nd...)
		// derived facts to a fixpoint bounded by fuel (unfolding apps inside unfold equations)
		for k := 0; k < fuel+6; k++ {
			all := append(append([]*Term(nil), result...), derived...)
			if !derive(all) {
				break
			}
		}
		if gen >= maxGen {
			_, nd = runInst()
			result = append(append([]*Term(nil), nb...), nd...)
			// skolem closure: witnesses (skolem constants) created by the last round - e.g. the k of an
			// instance of "forall x :: P(x) ==> exists k :: a[k] == x" - are offered once more to every
			// quantifier, alone (no other candidates), so that frame/copy facts and the goal can be
			// instantiated at them. The instances are few: (#new witnesses)^arity per quantifier.
			known := map[*Term]bool{}
			for _, m := range cands {
				for c := range m {
					known[c] = true
				}
			}
			fresh := map[string]map[*Term]bool{}
			nFresh := 0
			for q, m := range p.skolems {
				for _, b := range q.Bound {
					if !known[m[b]] {
						addCand(fresh, b.Key+"|sk", m[b])
						nFresh++
					}
				}
			}
			// goal closure: the GOAL alone (not the hypotheses) is instantiated once more at the
			// witnesses and index terms that the last round produced - the final step of a chain
			// "hypothesis A gives j, hypothesis B at j gives k, the goal's exists is witnessed by k"
			// then needs no extra full round. Cheap: only the goal's own quantifiers are expanded.
			last := map[string]map[*Term]bool{}
			collectCands(nb, last)
			for key, m := range last {
				for c := range m {
					if !known[c] {
						addCand(fresh, key, c)
						nFresh++
					}
				}
			}
			if nFresh > 0 && nFresh <= 400 && goalStart < len(base) && !hints.NoGoalClosure {
				for _, f := range base[goalStart:] {
					if containsQuant(f) {
						splitConj(p.inst(f, true, fresh), &result)
					}
				}
			}
			break
		}
		// next generation of candidates: marked terms of instances of base formulas (in lemma proofs,
		// which are small, also those of revealed definitions)
		collectCands(nb, cands)
		if o.Lemma {
			collectCands(nd, cands)
		}
		addSkolems()
	}
	// dedupe
	seen := map[*Term]bool{}
	var out []*Term
	for _, f := range result {
		if !seen[f] {
			seen[f] = true
			out = append(out, f)
		}
	}
	return out, p
}

// triggerInstance instantiates a lemma whose trigger pattern matches application a.
func (w *World) triggerInstance(lem *Lemma, fn *SpecFn, a *Term) (res *Term) {
	defer func() {
		if r := recover(); r != nil {
			if _, ok := r.(specErr); ok {
				res = nil
				return
			}
			panic(r)
		}
	}()
	raw := make([]*Term, len(a.Args))
	for i, x := range a.Args {
		raw[i] = unmark(x)
	}
	vals := unflatten(raw, fn.Params)
	bind := map[string]SVal{}
	for i, pa := range lem.Trigger.Args {
		id, ok := pa.(*EIdent)
		if !ok {
			return nil
		}
		if id.Name == "_" {
			continue
		}
		bind[id.Name] = vals[i]
	}
	args := make([]SVal, len(lem.Params))
	for i, p := range lem.Params {
		v, ok := bind[p.Name]
		if !ok {
			return nil
		}
		args[i] = v
	}
	return w.lemmaBody(lem, args)
}

// ---------- solving ----------

type Solver struct {
	Name string
	Cmd  func(file string, timeout int) []string
	Pre  string
}

var solvers = []Solver{
	{"z3-5.1", func(f string, t int) []string { return []string{"z3-new", fmt.Sprintf("-T:%d", t), f} }, ""},
	{"cvc5-1.0", func(f string, t int) []string {
		return []string{"cvc5", "--incremental", fmt.Sprintf("--tlimit=%d", t*1000), f}
	}, "(set-logic ALL)\n"},
	{"z3-4.8", func(f string, t int) []string { return []string{"z3", fmt.Sprintf("-T:%d", t), f} }, ""},
	{"z3-5.1/sat-euf", func(f string, t int) []string {
		return []string{"z3-new", "sat.euf=true", "tactic.default_tactic=sat", fmt.Sprintf("-T:%d", t), f}
	}, ""},
}

var workDir string
var fileSeq int
var fileMu sync.Mutex

func runSolver(ctx context.Context, s Solver, query string, timeout int) (status string, out string, secs float64) {
	fileMu.Lock()
	fileSeq++
	fn := filepath.Join(workDir, fmt.Sprintf("q%d_%s.smt2", fileSeq, strings.ReplaceAll(s.Name, "/", "_")))
	fileMu.Unlock()
	txt := query
	if s.Pre != "" {
		// set-logic must follow set-option lines
		if strings.HasPrefix(txt, "(set-option :produce-models true)\n") {
			txt = "(set-option :produce-models true)\n" + s.Pre + strings.TrimPrefix(txt, "(set-option :produce-models true)\n")
		} else {
			txt = s.Pre + txt
		}
	}
	os.WriteFile(fn, []byte(txt), 0644)
	defer os.Remove(fn)
	cctx, cancel := context.WithTimeout(ctx, time.Duration(timeout+5)*time.Second)
	defer cancel()
	args := s.Cmd(fn, timeout)
	cmd := exec.CommandContext(cctx, args[0], args[1:]...)
	var buf bytes.Buffer
	cmd.Stdout = &buf
	cmd.Stderr = &buf
	t0 := time.Now()
	cmd.Run()
	secs = time.Since(t0).Seconds()
	out = buf.String()
	first := strings.TrimSpace(strings.SplitN(out, "\n", 2)[0])
	switch first {
	case "unsat", "sat", "unknown":
		status = first
	case "timeout":
		status = "timeout"
	default:
		if cctx.Err() != nil || strings.Contains(out, "timeout") || strings.Contains(out, "interrupted") {
			status = "timeout"
		} else {
			status = "error"
		}
	}
	return
}

var stage1Timeout = 6

// solveQuery runs the portfolio on one query text: first the primary solver with a short
// budget, then all back ends race with the full timeout (first decisive answer wins).
func solveQuery(query string, timeout int, both bool) *SolveResult {
	t1 := stage1Timeout
	if t1 > timeout {
		t1 = timeout
	}
	st, out, secs := runSolver(context.Background(), solvers[0], query, t1)
	res := &SolveResult{Status: st, Solver: solvers[0].Name, Seconds: secs, Output: out, Queries: 1}
	if st == "unsat" || st == "sat" {
		return res
	}
	type r struct {
		st, out string
		secs    float64
		name    string
	}
	ctx, cancel := context.WithCancel(context.Background())
	defer cancel()
	ch := make(chan r, len(solvers))
	for _, s := range solvers {
		s := s
		go func() {
			a, b, c := runSolver(ctx, s, query, timeout)
			ch <- r{a, b, c, s.Name}
		}()
	}
	res.Output = ""
	for k := 0; k < len(solvers); k++ {
		x := <-ch
		res.Seconds += x.secs
		if x.st == "unsat" || x.st == "sat" {
			res.Status, res.Solver, res.Output = x.st, x.name, x.out
			return res
		}
		res.Status = x.st
		res.Output += "[" + x.name + "] " + x.st + ": " + firstLines(x.out, 2) + "\n"
	}
	return res
}

func firstLines(s string, n int) string {
	l := strings.Split(s, "\n")
	if len(l) > n {
		l = l[:n]
	}
	return strings.Join(l, " | ")
}

func parseModel(out string) map[string]string {
	m := map[string]string{}
	// get-value output: ((name value) (name value) ...)
	k := strings.Index(out, "((")
	if k < 0 {
		return m
	}
	s := out[k+1:]
	depth := 0
	start := -1
	for i := 0; i < len(s); i++ {
		switch s[i] {
		case '(':
			if depth == 0 {
				start = i
			}
			depth++
		case ')':
			depth--
			if depth == 0 && start >= 0 {
				item := s[start+1 : i]
				// split at the last top-level token
				item = strings.TrimSpace(item)
				var name, val string
				if strings.HasSuffix(item, ")") {
					// value is an s-expression
					d := 0
					for j := len(item) - 1; j >= 0; j-- {
						if item[j] == ')' {
							d++
						}
						if item[j] == '(' {
							d--
							if d == 0 {
								name, val = strings.TrimSpace(item[:j]), item[j:]
								break
							}
						}
					}
				} else {
					j := strings.LastIndexAny(item, " \n\t")
					if j >= 0 {
						name, val = strings.TrimSpace(item[:j]), item[j+1:]
					}
				}
				if name != "" {
					m[name] = val
				}
				start = -1
			}
			if depth < 0 {
				return m
			}
		}
	}
	return m
}

type PreparedQuery struct {
	Label string
	Text  string
}

type PreparedObl struct {
	O          *Obligation
	Queries    []PreparedQuery
	ModelNames []string
	ModelStrs  []string
	Insts      int
	Trivial    bool
	Err        string
}

// PrepareObligation builds the SMT queries of an obligation (sequential: uses the term tables).
func (w *World) PrepareObligation(o *Obligation, lemmaMax int) *PreparedObl {
	po := &PreparedObl{O: o}
	if !o.Cover && o.Goal == True {
		po.Trivial = true
		return po
	}
	asserts, p := w.Prepare(o, lemmaMax)
	po.Insts = p.nInst
	for l := range p.usedLem {
		w.noteLemmaUse(o.Func, l)
	}
	var model []*Term
	pr := &printer{names: map[*Term]string{}}
	for _, nt := range o.Model {
		model = append(model, nt.T)
		po.ModelNames = append(po.ModelNames, nt.Name)
		po.ModelStrs = append(po.ModelStrs, pr.str(nt.T))
	}
	hints := o.Hints
	type q struct {
		asserts []*Term
		label   string
	}
	queries := []q{{asserts, ""}}
	if hints != nil && !o.Cover {
		for _, sp := range hints.Splits {
			var nq []q
			for _, qq := range queries {
				for c := sp.Lo; c <= sp.Hi; c++ {
					cv := BVInt(c, sp.T.S.W)
					var as []*Term
					if unmark(sp.T).Op == "var" {
						m := map[*Term]*Term{unmark(sp.T): cv}
						for _, a := range qq.asserts {
							as = append(as, Subst(a, m))
						}
					} else {
						as = append(append([]*Term(nil), qq.asserts...), Eq(sp.T, cv))
					}
					nq = append(nq, q{as, fmt.Sprintf("%s[%d]", qq.label, c)})
				}
				rest := Or(BVCmp("bvslt", sp.T, BVInt(sp.Lo, sp.T.S.W)), BVCmp("bvslt", BVInt(sp.Hi, sp.T.S.W), sp.T))
				nq = append(nq, q{append(append([]*Term(nil), qq.asserts...), rest), qq.label + "[else]"})
			}
			queries = nq
		}
	}
	for _, qq := range queries {
		trivial := false
		for _, a := range qq.asserts {
			if a == False {
				trivial = true
			}
		}
		if trivial {
			continue
		}
		txt := PrintQuery(qq.asserts, model, "", true)
		if len(txt) > 8<<20 {
			po.Err = fmt.Sprintf("VC too large (%d bytes)", len(txt))
			break
		}
		po.Queries = append(po.Queries, PreparedQuery{qq.label, txt})
	}
	return po
}

type queryJob struct {
	po  *PreparedObl
	idx int
	res *SolveResult
}

// Jobs returns one job per query; trivial obligations are resolved immediately.
func (po *PreparedObl) Jobs() []*queryJob {
	o := po.O
	if po.Trivial {
		o.Res = &SolveResult{Status: "unsat", Solver: "simplifier"}
		return nil
	}
	if po.Err != "" {
		o.Res = &SolveResult{Status: "error", Output: po.Err}
		return nil
	}
	if len(po.Queries) == 0 {
		o.Res = &SolveResult{Status: "unsat", Solver: "simplifier"}
		return nil
	}
	var js []*queryJob
	for i := range po.Queries {
		js = append(js, &queryJob{po: po, idx: i})
	}
	return js
}

func (j *queryJob) run(timeout int) {
	o := j.po.O
	if o.Hints != nil && o.Hints.Timeout > 0 && o.Hints.Timeout < timeout {
		timeout = o.Hints.Timeout
	}
	j.res = solveQuery(j.po.Queries[j.idx].Text, timeout, false)
	if crossCheck && j.res.Status == "unsat" {
		// second opinion from a different solver family (z3 <-> cvc5), short timeout
		other := solvers[1]
		if strings.HasPrefix(j.res.Solver, "cvc5") {
			other = solvers[0]
		}
		st, out, secs := runSolver(context.Background(), other, j.po.Queries[j.idx].Text, crossTimeout)
		j.res.Seconds += secs
		switch st {
		case "unsat":
			j.res.CrossAgreed = 1
		case "sat":
			j.res.CrossDisagree = []string{other.Name + " answers sat where " + j.res.Solver + " answered unsat: " + firstLines(out, 2)}
		default:
			j.res.CrossUnconfirmed = 1
		}
	}
}

// crossCheck (thorough tier): cross-solver agreement on every discharged query
var crossCheck bool
var crossTimeout = 30

// Collect aggregates the per-query results of an obligation.
func (po *PreparedObl) Collect(js []*queryJob) {
	o := po.O
	res := &SolveResult{Status: "unsat", Insts: po.Insts}
	for _, j := range js {
		r := j.res
		q := po.Queries[j.idx]
		res.Queries++
		res.Seconds += r.Seconds
		res.CrossAgreed += r.CrossAgreed
		res.CrossUnconfirmed += r.CrossUnconfirmed
		res.CrossDisagree = append(res.CrossDisagree, r.CrossDisagree...)
		if res.Solver == "" || r.Status != "unsat" {
			res.Solver = r.Solver
		}
		if r.Seconds > res.MaxSeconds {
			res.MaxSeconds = r.Seconds
		}
		if r.Status != "unsat" && res.Status == "unsat" {
			res.Status = r.Status
			res.Output = strings.TrimSpace(q.Label + " " + r.Output)
			res.QueryTxt = q.Text
			if r.Status == "sat" {
				mm := parseModel(r.Output)
				res.Model = map[string]string{}
				for i, s := range po.ModelStrs {
					if v, ok := mm[s]; ok {
						res.Model[po.ModelNames[i]] = v
					}
				}
			}
		}
	}
	if res.Solver == "" {
		res.Solver = "simplifier"
	}
	o.Res = res
}

var lemmaUseMu sync.Mutex

func (w *World) noteLemmaUse(fn, lemma string) {
	lemmaUseMu.Lock()
	defer lemmaUseMu.Unlock()
	if w.LemmaUses == nil {
		w.LemmaUses = map[string]map[string]bool{}
	}
	if w.LemmaUses[fn] == nil {
		w.LemmaUses[fn] = map[string]bool{}
	}
	w.LemmaUses[fn][lemma] = true
}
