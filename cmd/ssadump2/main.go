package main

import (
	"fmt"
	"os"

	"golang.org/x/tools/go/packages"
	"golang.org/x/tools/go/ssa"
	"golang.org/x/tools/go/ssa/ssautil"
)

func main() {
	mode := ssa.BuilderMode(0)
	if os.Getenv("NAIVE") != "" {
		mode |= ssa.NaiveForm
	}
	if os.Getenv("DEBUG") != "" {
		mode |= ssa.GlobalDebug
	}
	cfg := &packages.Config{Mode: packages.LoadAllSyntax, Dir: "/repo", BuildFlags: []string{"-tags=" + os.Getenv("TAGS")}}
	pkgs, err := packages.Load(cfg, os.Args[1])
	if err != nil {
		panic(err)
	}
	prog, spkgs := ssautil.AllPackages(pkgs, mode)
	prog.Build()
	for _, p := range spkgs {
		for _, name := range os.Args[2:] {
			if f := p.Func(name); f != nil {
				f.WriteTo(os.Stdout)
				for _, af := range f.AnonFuncs {
					af.WriteTo(os.Stdout)
				}
			} else {
				fmt.Println("no func", name)
			}
		}
	}
}
